
val negb : bool -> bool

type nat =
| O
| S of nat

val fst : ('a1 * 'a2) -> 'a1

val snd : ('a1 * 'a2) -> 'a2

val length : 'a1 list -> nat

val app : 'a1 list -> 'a1 list -> 'a1 list

type comparison =
| Eq
| Lt
| Gt

val add : nat -> nat -> nat

val sub : nat -> nat -> nat

type positive =
| XI of positive
| XO of positive
| XH

type n =
| N0
| Npos of positive

type z =
| Z0
| Zpos of positive
| Zneg of positive

module Pos :
 sig
  val succ : positive -> positive

  val add : positive -> positive -> positive

  val add_carry : positive -> positive -> positive

  val pred_double : positive -> positive

  val pred_N : positive -> n

  val mul : positive -> positive -> positive

  val iter : ('a1 -> 'a1) -> 'a1 -> positive -> 'a1

  val compare_cont : comparison -> positive -> positive -> comparison

  val compare : positive -> positive -> comparison

  val eqb : positive -> positive -> bool

  val coq_Nsucc_double : n -> n

  val coq_Ndouble : n -> n

  val coq_land : positive -> positive -> n

  val coq_lxor : positive -> positive -> n

  val testbit : positive -> n -> bool

  val iter_op : ('a1 -> 'a1 -> 'a1) -> positive -> 'a1 -> 'a1

  val to_nat : positive -> nat

  val of_succ_nat : nat -> positive
 end

module N :
 sig
  val add : n -> n -> n

  val mul : n -> n -> n

  val compare : n -> n -> comparison

  val eqb : n -> n -> bool

  val ltb : n -> n -> bool

  val div2 : n -> n

  val coq_land : n -> n -> n

  val coq_lxor : n -> n -> n

  val shiftr : n -> n -> n

  val testbit : n -> n -> bool

  val to_nat : n -> nat

  val of_nat : nat -> n
 end

module Z :
 sig
  val of_N : n -> z
 end

val tl : 'a1 list -> 'a1 list

val nth : nat -> 'a1 list -> 'a1 -> 'a1

val map : ('a1 -> 'a2) -> 'a1 list -> 'a2 list

val fold_left : ('a1 -> 'a2 -> 'a1) -> 'a2 list -> 'a1 -> 'a1

val firstn : nat -> 'a1 list -> 'a1 list

val skipn : nat -> 'a1 list -> 'a1 list

val seq : nat -> nat -> nat list

type verdict =
| Accept of nat
| Reject
| More

type 'b frame = nat * 'b list

type 'b sstate = nat * 'b list

val scan_aux :
  ('a1 list -> verdict) -> nat -> nat -> 'a1 list -> 'a1 frame list * 'a1
  sstate

val scan :
  ('a1 list -> verdict) -> nat -> 'a1 list -> 'a1 frame list * 'a1 sstate

val feed :
  ('a1 list -> verdict) -> 'a1 sstate -> 'a1 list -> 'a1 frame list * 'a1
  sstate

val crc_poly : n

val crc_xor : n

val sYNC0 : n

val sYNC1 : n

val hEADER_SIZE : nat

val le : n list -> n

val sub0 : n list -> nat -> nat -> n list

val step_bit : n -> n

val step8 : n -> n

val range256 : n list

val crc_table : n list

val table_lookup : n -> n

val upd_table : n -> n -> n

val crc_fold : (n -> n -> n) -> n -> n list -> n

val crc32_from_with : (n -> n -> n) -> n -> n list -> n

val crc32_from : n -> n list -> n

val crc32 : n list -> n

type header = { h_sync0 : n; h_sync1 : n; h_reserved : n; h_crc : n;
                h_proto : n; h_msgver : n; h_type : n; h_seq : n;
                h_psize : n; h_source : n }

val parse_header : n list -> header

val crc_region : n list -> nat -> n list

val pyDecoder_shorter : n list -> nat -> bool

val pyDecoder_judge : n -> n -> n list -> verdict

val pyDecoder_judge_dec :
  (n -> n list -> 'a1 option) -> n -> n -> n list -> verdict

type pyDecoder_state = { pd_buf : n list; pd_hdr : header option;
                         pd_msg_len : n; pd_processed : n;
                         pd_last_seq : n option }

val pyDecoder_init : pyDecoder_state

type 'p pyDecoder_result = { pr_hdr : header; pr_payload : 'p;
                             pr_bytes : n list option; pr_off : n option }

val pyDecoder_pop : pyDecoder_state -> header option -> n -> pyDecoder_state

val pyDecoder_validate_crc : n -> header -> n list -> bool

type 'p pyDecoder_step_res =
| PdBreak of pyDecoder_state
| PdContinue of pyDecoder_state
| PdEmit of 'p pyDecoder_result * pyDecoder_state
| PdRaise

val pyDecoder_complete :
  (n -> n list -> 'a1 option) -> n -> bool -> bool -> bool -> pyDecoder_state
  -> header -> 'a1 pyDecoder_step_res

val pyDecoder_step :
  (n -> n list -> 'a1 option) -> n -> n -> bool -> bool -> bool ->
  pyDecoder_state -> 'a1 pyDecoder_step_res

type 'p pyDecoder_outcome =
| PdDone of 'p pyDecoder_result list * pyDecoder_state
| PdRaised
| PdOutOfFuel

val pyDecoder_loop :
  (n -> n list -> 'a1 option) -> n -> n -> bool -> bool -> bool -> nat ->
  pyDecoder_state -> 'a1 pyDecoder_outcome

val pyDecoder_on_data :
  (n -> n list -> 'a1 option) -> n -> n -> bool -> bool -> bool ->
  pyDecoder_state -> n list -> 'a1 pyDecoder_outcome
