
val negb : bool -> bool

type nat =
| O
| S of nat

val fst : ('a1 * 'a2) -> 'a1

val snd : ('a1 * 'a2) -> 'a2

val length : 'a1 list -> nat

val app : 'a1 list -> 'a1 list -> 'a1 list

type comparison =
| Eq
| Lt
| Gt

val compOpp : comparison -> comparison

val add : nat -> nat -> nat

val sub : nat -> nat -> nat

type positive =
| XI of positive
| XO of positive
| XH

type n =
| N0
| Npos of positive

type z =
| Z0
| Zpos of positive
| Zneg of positive

module Nat :
 sig
  val leb : nat -> nat -> bool

  val ltb : nat -> nat -> bool
 end

module Pos :
 sig
  type mask =
  | IsNul
  | IsPos of positive
  | IsNeg
 end

module Coq_Pos :
 sig
  val succ : positive -> positive

  val add : positive -> positive -> positive

  val add_carry : positive -> positive -> positive

  val pred_double : positive -> positive

  val pred_N : positive -> n

  type mask = Pos.mask =
  | IsNul
  | IsPos of positive
  | IsNeg

  val succ_double_mask : mask -> mask

  val double_mask : mask -> mask

  val double_pred_mask : positive -> mask

  val sub_mask : positive -> positive -> mask

  val sub_mask_carry : positive -> positive -> mask

  val mul : positive -> positive -> positive

  val iter : ('a1 -> 'a1) -> 'a1 -> positive -> 'a1

  val compare_cont : comparison -> positive -> positive -> comparison

  val compare : positive -> positive -> comparison

  val eqb : positive -> positive -> bool

  val coq_Nsucc_double : n -> n

  val coq_Ndouble : n -> n

  val coq_lor : positive -> positive -> positive

  val coq_land : positive -> positive -> n

  val coq_lxor : positive -> positive -> n

  val shiftl : positive -> n -> positive

  val testbit : positive -> n -> bool

  val iter_op : ('a1 -> 'a1 -> 'a1) -> positive -> 'a1 -> 'a1

  val to_nat : positive -> nat

  val of_succ_nat : nat -> positive
 end

module N :
 sig
  val succ_double : n -> n

  val double : n -> n

  val add : n -> n -> n

  val sub : n -> n -> n

  val mul : n -> n -> n

  val compare : n -> n -> comparison

  val eqb : n -> n -> bool

  val leb : n -> n -> bool

  val ltb : n -> n -> bool

  val min : n -> n -> n

  val div2 : n -> n

  val pos_div_eucl : positive -> n -> n * n

  val div_eucl : n -> n -> n * n

  val modulo : n -> n -> n

  val coq_lor : n -> n -> n

  val coq_land : n -> n -> n

  val coq_lxor : n -> n -> n

  val shiftl : n -> n -> n

  val shiftr : n -> n -> n

  val testbit : n -> n -> bool

  val to_nat : n -> nat

  val of_nat : nat -> n
 end

val tl : 'a1 list -> 'a1 list

val nth : nat -> 'a1 list -> 'a1 -> 'a1

val nth_error : 'a1 list -> nat -> 'a1 option

val fold_left : ('a1 -> 'a2 -> 'a1) -> 'a2 list -> 'a1 -> 'a1

val fold_right : ('a2 -> 'a1 -> 'a1) -> 'a1 -> 'a2 list -> 'a1

val firstn : nat -> 'a1 list -> 'a1 list

val skipn : nat -> 'a1 list -> 'a1 list

module Z :
 sig
  val compare : z -> z -> comparison

  val ltb : z -> z -> bool

  val eqb : z -> z -> bool

  val to_N : z -> n

  val of_N : n -> z
 end

type 'a outcome =
| Ok of 'a
| OobRead of n * n
| OobWrite of n * n
| OutOfFuel

val bind : 'a1 outcome -> ('a1 -> 'a2 outcome) -> 'a2 outcome

val u32 : n -> n

val blen : n list -> n

val rd : n list -> n -> n outcome

val upd : n list -> nat -> n -> n list option

val wr : n list -> n -> n -> n list outcome

val rd_range : n list -> n -> n -> n list outcome

val memmove0 : n list -> n -> n -> n list outcome

type event = n * n list

type ('st, 'x) core = { c_buf : n list; c_cap : n; c_state : 'st; c_next : 
                        n; c_size : n; c_x : 'x }

val set_buf : ('a1, 'a2) core -> n list -> ('a1, 'a2) core

val set_state : ('a1, 'a2) core -> 'a1 -> ('a1, 'a2) core

val set_next : ('a1, 'a2) core -> n -> ('a1, 'a2) core

val set_size : ('a1, 'a2) core -> n -> ('a1, 'a2) core

val set_x : ('a1, 'a2) core -> 'a2 -> ('a1, 'a2) core

type ('st, 'x) framer = { f_has : bool; f_managed : bool;
                          f_core : ('st, 'x) core }

val reset_core : 'a1 -> ('a2 -> 'a2) -> ('a1, 'a2) core -> ('a1, 'a2) core

val reset : 'a1 -> ('a2 -> 'a2) -> ('a1, 'a2) framer -> ('a1, 'a2) framer

val set_buffer :
  'a1 -> ('a2 -> 'a2) -> n -> bool -> n -> n -> ('a1, 'a2) framer -> n option
  -> n -> n -> n list -> ('a1, 'a2) framer

type ('st, 'x) lstate = { l_c : ('st, 'x) core; l_off : n; l_avail : 
                          n; l_total : n; l_evs : event list }

val resync_body :
  ('a1 -> bool) -> n -> bool -> (bool -> ('a1, 'a2) core -> ((('a1, 'a2)
  core * z) * event list) outcome) -> ('a1, 'a2) lstate -> ('a1, 'a2) lstate
  outcome

val resync_inner :
  ('a1 -> bool) -> n -> bool -> (bool -> ('a1, 'a2) core -> ((('a1, 'a2)
  core * z) * event list) outcome) -> nat -> ('a1, 'a2) lstate -> (('a1, 'a2)
  lstate * bool) outcome

val resync_outer :
  ('a1 -> bool) -> n -> bool -> (bool -> ('a1, 'a2) core -> ((('a1, 'a2)
  core * z) * event list) outcome) -> nat -> nat -> ('a1, 'a2) lstate ->
  ('a1, 'a2) lstate outcome

val resync_fuel : n -> nat

val resync :
  'a1 -> ('a1 -> bool) -> n -> bool -> (bool -> ('a1, 'a2) core -> ((('a1,
  'a2) core * z) * event list) outcome) -> ('a1, 'a2) core -> ((('a1, 'a2)
  core * n) * event list) outcome

val on_data_loop :
  'a1 -> ('a1 -> bool) -> n -> bool -> (bool -> ('a1, 'a2) core -> ((('a1,
  'a2) core * z) * event list) outcome) -> ('a1, 'a2) core -> n list -> n ->
  event list -> ((('a1, 'a2) core * n) * event list) outcome

val on_data :
  'a1 -> ('a1 -> bool) -> n -> bool -> (bool -> ('a1, 'a2) core -> ((('a1,
  'a2) core * z) * event list) outcome) -> ('a1, 'a2) framer -> n list ->
  ((('a1, 'a2) framer * n) * event list) outcome

type verdict =
| Accept of nat
| Reject
| More

type 'b frame = nat * 'b list

type 'b sstate = nat * 'b list

val scan_aux :
  ('a1 list -> verdict) -> nat -> nat -> 'a1 list -> 'a1 frame list * 'a1
  sstate

val scan :
  ('a1 list -> verdict) -> nat -> 'a1 list -> 'a1 frame list * 'a1 sstate

val feed :
  ('a1 list -> verdict) -> 'a1 sstate -> 'a1 list -> 'a1 frame list * 'a1
  sstate

type op =
| OpData of n list
| OpReset
| OpSetBuffer of n option * n * n * n list

type spst = { sp_cap : n option; sp_off : nat; sp_res : n list }

val spec_init : spst

val spec_eff_capacity : n -> n -> n option -> n -> n -> n option

val spec_op :
  (n -> n list -> verdict) -> n -> n -> spst -> op -> spst * (nat * n list)
  list

val frames_total : (nat * n list) list -> n

val rTCM_PREAMBLE : n

val rTCM_HEADER_BYTES : n

val rTCM_CRC_BYTES : n

val rTCM_MAX_PAYLOAD : n

val rTCM_LEN_MASK : n

val rTCM_TYPE_SHIFT : n

val rTCM_CRC_INIT : n

val rTCM_CRC_MASK : n

val rTCM_CLAMP : n

val rTCM_ALIGN_MASK : n

val rTCM_MANAGED_EXTRA : n

val crc24q_table_src : n list

val sub0 : n list -> nat -> nat -> n list

val crc24q_poly : n

val q_step_bit : n -> n

val q_step8 : n -> n

val q_upd_bits : n -> n -> n

val crc24q : n list -> n

val q_lookup : n -> n

val q_upd_table : n -> n -> n

val crc24_hash : n list -> n

val sPEC_PREAMBLE : n

val sPEC_HEADER_BYTES : n

val sPEC_CRC_BYTES : n

val sPEC_MAX_PAYLOAD : n

val sPEC_LEN_MASK : n

val sPEC_TYPE_SHIFT : n

val rTCM_OVERHEAD : nat

val rtcm_len : n -> n -> n

val be : n list -> n

val rtcm_msg_number : n list -> n

val judge_rtcm : n -> n list -> verdict

type rstate =
| RS_SYNC
| RS_HEADER
| RS_DATA

val r_is_sync : rstate -> bool

type rx = n * n

type rcore = (rstate, rx) core

type rframer = (rstate, rx) framer

val rTCM_OVERHEAD_BYTES : n

val rTCM_MAX_SIZE_BYTES : n

val inc_err : rcore -> rcore

val inc_dec : rcore -> rcore

val swap16 : n list -> n -> n outcome

val swap24 : n list -> n -> n outcome

val r_crc_check : rcore -> ((rcore * z) * event list) outcome

val r_on_byte : bool -> rcore -> ((rcore * z) * event list) outcome

val r_reset_x : rx -> rx

val rtcm_on_data :
  (rstate, rx) framer -> n list -> (((rstate, rx) framer * n) * event list)
  outcome

val rtcm_reset : (rstate, rx) framer -> (rstate, rx) framer

val rtcm_set_buffer :
  (rstate, rx) framer -> n option -> n -> n -> n list -> (rstate, rx) framer

val rtcm_default : rframer

val rtcm_construct : n option -> n -> n -> n list -> rframer

val rtcm_decoded : rframer -> n

val rtcm_errors : rframer -> n

val rtcm_op : rframer -> op -> ((rframer * n) * event list) outcome

val rtcm_event_of : (nat * n list) -> event

val rtcm_spec_op : spst -> op -> spst * (nat * n list) list

val rtcm_spec_construct : n option -> n -> n -> spst
