
(** val negb : bool -> bool **)

let negb = function
| true -> false
| false -> true

type nat =
| O
| S of nat

(** val fst : ('a1 * 'a2) -> 'a1 **)

let fst = function
| (x, _) -> x

(** val snd : ('a1 * 'a2) -> 'a2 **)

let snd = function
| (_, y) -> y

(** val length : 'a1 list -> nat **)

let rec length = function
| [] -> O
| _ :: l' -> S (length l')

(** val app : 'a1 list -> 'a1 list -> 'a1 list **)

let rec app l m =
  match l with
  | [] -> m
  | a :: l1 -> a :: (app l1 m)

type comparison =
| Eq
| Lt
| Gt

(** val compOpp : comparison -> comparison **)

let compOpp = function
| Eq -> Eq
| Lt -> Gt
| Gt -> Lt

module Coq__1 = struct
 (** val add : nat -> nat -> nat **)
 let rec add n0 m =
   match n0 with
   | O -> m
   | S p -> S (add p m)
end
include Coq__1

(** val sub : nat -> nat -> nat **)

let rec sub n0 m =
  match n0 with
  | O -> n0
  | S k -> (match m with
            | O -> n0
            | S l -> sub k l)

type positive =
| XI of positive
| XO of positive
| XH

type n =
| N0
| Npos of positive

type z =
| Z0
| Zpos of positive
| Zneg of positive

(** val bool_dec : bool -> bool -> bool **)

let bool_dec b1 b2 =
  if b1 then if b2 then true else false else if b2 then false else true

module Nat =
 struct
  (** val eqb : nat -> nat -> bool **)

  let rec eqb n0 m =
    match n0 with
    | O -> (match m with
            | O -> true
            | S _ -> false)
    | S n' -> (match m with
               | O -> false
               | S m' -> eqb n' m')
 end

module Pos =
 struct
  (** val succ : positive -> positive **)

  let rec succ = function
  | XI p -> XO (succ p)
  | XO p -> XI p
  | XH -> XO XH

  (** val add : positive -> positive -> positive **)

  let rec add x y =
    match x with
    | XI p ->
      (match y with
       | XI q -> XO (add_carry p q)
       | XO q -> XI (add p q)
       | XH -> XO (succ p))
    | XO p ->
      (match y with
       | XI q -> XI (add p q)
       | XO q -> XO (add p q)
       | XH -> XI p)
    | XH -> (match y with
             | XI q -> XO (succ q)
             | XO q -> XI q
             | XH -> XO XH)

  (** val add_carry : positive -> positive -> positive **)

  and add_carry x y =
    match x with
    | XI p ->
      (match y with
       | XI q -> XI (add_carry p q)
       | XO q -> XO (add_carry p q)
       | XH -> XI (succ p))
    | XO p ->
      (match y with
       | XI q -> XO (add_carry p q)
       | XO q -> XI (add p q)
       | XH -> XO (succ p))
    | XH ->
      (match y with
       | XI q -> XI (succ q)
       | XO q -> XO (succ q)
       | XH -> XI XH)

  (** val pred_double : positive -> positive **)

  let rec pred_double = function
  | XI p -> XI (XO p)
  | XO p -> XI (pred_double p)
  | XH -> XH

  (** val mul : positive -> positive -> positive **)

  let rec mul x y =
    match x with
    | XI p -> add y (XO (mul p y))
    | XO p -> XO (mul p y)
    | XH -> y

  (** val compare_cont : comparison -> positive -> positive -> comparison **)

  let rec compare_cont r x y =
    match x with
    | XI p ->
      (match y with
       | XI q -> compare_cont r p q
       | XO q -> compare_cont Gt p q
       | XH -> Gt)
    | XO p ->
      (match y with
       | XI q -> compare_cont Lt p q
       | XO q -> compare_cont r p q
       | XH -> Gt)
    | XH -> (match y with
             | XH -> r
             | _ -> Lt)

  (** val compare : positive -> positive -> comparison **)

  let compare =
    compare_cont Eq

  (** val eqb : positive -> positive -> bool **)

  let rec eqb p q =
    match p with
    | XI p0 -> (match q with
                | XI q0 -> eqb p0 q0
                | _ -> false)
    | XO p0 -> (match q with
                | XO q0 -> eqb p0 q0
                | _ -> false)
    | XH -> (match q with
             | XH -> true
             | _ -> false)

  (** val iter_op : ('a1 -> 'a1 -> 'a1) -> positive -> 'a1 -> 'a1 **)

  let rec iter_op op p a =
    match p with
    | XI p0 -> op a (iter_op op p0 (op a a))
    | XO p0 -> iter_op op p0 (op a a)
    | XH -> a

  (** val to_nat : positive -> nat **)

  let to_nat x =
    iter_op Coq__1.add x (S O)

  (** val of_succ_nat : nat -> positive **)

  let rec of_succ_nat = function
  | O -> XH
  | S x -> succ (of_succ_nat x)

  (** val eq_dec : positive -> positive -> bool **)

  let rec eq_dec p x0 =
    match p with
    | XI p0 -> (match x0 with
                | XI p1 -> eq_dec p0 p1
                | _ -> false)
    | XO p0 -> (match x0 with
                | XO p1 -> eq_dec p0 p1
                | _ -> false)
    | XH -> (match x0 with
             | XH -> true
             | _ -> false)
 end

module N =
 struct
  (** val compare : n -> n -> comparison **)

  let compare n0 m =
    match n0 with
    | N0 -> (match m with
             | N0 -> Eq
             | Npos _ -> Lt)
    | Npos n' -> (match m with
                  | N0 -> Gt
                  | Npos m' -> Pos.compare n' m')

  (** val eqb : n -> n -> bool **)

  let eqb n0 m =
    match n0 with
    | N0 -> (match m with
             | N0 -> true
             | Npos _ -> false)
    | Npos p -> (match m with
                 | N0 -> false
                 | Npos q -> Pos.eqb p q)

  (** val leb : n -> n -> bool **)

  let leb x y =
    match compare x y with
    | Gt -> false
    | _ -> true

  (** val eq_dec : n -> n -> bool **)

  let eq_dec n0 m =
    match n0 with
    | N0 -> (match m with
             | N0 -> true
             | Npos _ -> false)
    | Npos p -> (match m with
                 | N0 -> false
                 | Npos p0 -> Pos.eq_dec p p0)
 end

module Z =
 struct
  (** val double : z -> z **)

  let double = function
  | Z0 -> Z0
  | Zpos p -> Zpos (XO p)
  | Zneg p -> Zneg (XO p)

  (** val succ_double : z -> z **)

  let succ_double = function
  | Z0 -> Zpos XH
  | Zpos p -> Zpos (XI p)
  | Zneg p -> Zneg (Pos.pred_double p)

  (** val pred_double : z -> z **)

  let pred_double = function
  | Z0 -> Zneg XH
  | Zpos p -> Zpos (Pos.pred_double p)
  | Zneg p -> Zneg (XI p)

  (** val pos_sub : positive -> positive -> z **)

  let rec pos_sub x y =
    match x with
    | XI p ->
      (match y with
       | XI q -> double (pos_sub p q)
       | XO q -> succ_double (pos_sub p q)
       | XH -> Zpos (XO p))
    | XO p ->
      (match y with
       | XI q -> pred_double (pos_sub p q)
       | XO q -> double (pos_sub p q)
       | XH -> Zpos (Pos.pred_double p))
    | XH ->
      (match y with
       | XI q -> Zneg (XO q)
       | XO q -> Zneg (Pos.pred_double q)
       | XH -> Z0)

  (** val add : z -> z -> z **)

  let add x y =
    match x with
    | Z0 -> y
    | Zpos x' ->
      (match y with
       | Z0 -> x
       | Zpos y' -> Zpos (Pos.add x' y')
       | Zneg y' -> pos_sub x' y')
    | Zneg x' ->
      (match y with
       | Z0 -> x
       | Zpos y' -> pos_sub y' x'
       | Zneg y' -> Zneg (Pos.add x' y'))

  (** val opp : z -> z **)

  let opp = function
  | Z0 -> Z0
  | Zpos x0 -> Zneg x0
  | Zneg x0 -> Zpos x0

  (** val sub : z -> z -> z **)

  let sub m n0 =
    add m (opp n0)

  (** val mul : z -> z -> z **)

  let mul x y =
    match x with
    | Z0 -> Z0
    | Zpos x' ->
      (match y with
       | Z0 -> Z0
       | Zpos y' -> Zpos (Pos.mul x' y')
       | Zneg y' -> Zneg (Pos.mul x' y'))
    | Zneg x' ->
      (match y with
       | Z0 -> Z0
       | Zpos y' -> Zneg (Pos.mul x' y')
       | Zneg y' -> Zpos (Pos.mul x' y'))

  (** val compare : z -> z -> comparison **)

  let compare x y =
    match x with
    | Z0 -> (match y with
             | Z0 -> Eq
             | Zpos _ -> Lt
             | Zneg _ -> Gt)
    | Zpos x' -> (match y with
                  | Zpos y' -> Pos.compare x' y'
                  | _ -> Gt)
    | Zneg x' ->
      (match y with
       | Zneg y' -> compOpp (Pos.compare x' y')
       | _ -> Lt)

  (** val leb : z -> z -> bool **)

  let leb x y =
    match compare x y with
    | Gt -> false
    | _ -> true

  (** val ltb : z -> z -> bool **)

  let ltb x y =
    match compare x y with
    | Lt -> true
    | _ -> false

  (** val eqb : z -> z -> bool **)

  let eqb x y =
    match x with
    | Z0 -> (match y with
             | Z0 -> true
             | _ -> false)
    | Zpos p -> (match y with
                 | Zpos q -> Pos.eqb p q
                 | _ -> false)
    | Zneg p -> (match y with
                 | Zneg q -> Pos.eqb p q
                 | _ -> false)

  (** val max : z -> z -> z **)

  let max n0 m =
    match compare n0 m with
    | Lt -> m
    | _ -> n0

  (** val min : z -> z -> z **)

  let min n0 m =
    match compare n0 m with
    | Gt -> m
    | _ -> n0

  (** val abs : z -> z **)

  let abs = function
  | Zneg p -> Zpos p
  | x -> x

  (** val to_nat : z -> nat **)

  let to_nat = function
  | Zpos p -> Pos.to_nat p
  | _ -> O

  (** val to_N : z -> n **)

  let to_N = function
  | Zpos p -> Npos p
  | _ -> N0

  (** val of_nat : nat -> z **)

  let of_nat = function
  | O -> Z0
  | S n1 -> Zpos (Pos.of_succ_nat n1)

  (** val of_N : n -> z **)

  let of_N = function
  | N0 -> Z0
  | Npos p -> Zpos p

  (** val pos_div_eucl : positive -> z -> z * z **)

  let rec pos_div_eucl a b =
    match a with
    | XI a' ->
      let (q, r) = pos_div_eucl a' b in
      let r' = add (mul (Zpos (XO XH)) r) (Zpos XH) in
      if ltb r' b
      then ((mul (Zpos (XO XH)) q), r')
      else ((add (mul (Zpos (XO XH)) q) (Zpos XH)), (sub r' b))
    | XO a' ->
      let (q, r) = pos_div_eucl a' b in
      let r' = mul (Zpos (XO XH)) r in
      if ltb r' b
      then ((mul (Zpos (XO XH)) q), r')
      else ((add (mul (Zpos (XO XH)) q) (Zpos XH)), (sub r' b))
    | XH -> if leb (Zpos (XO XH)) b then (Z0, (Zpos XH)) else ((Zpos XH), Z0)

  (** val div_eucl : z -> z -> z * z **)

  let div_eucl a b =
    match a with
    | Z0 -> (Z0, Z0)
    | Zpos a' ->
      (match b with
       | Z0 -> (Z0, a)
       | Zpos _ -> pos_div_eucl a' b
       | Zneg b' ->
         let (q, r) = pos_div_eucl a' (Zpos b') in
         (match r with
          | Z0 -> ((opp q), Z0)
          | _ -> ((opp (add q (Zpos XH))), (add b r))))
    | Zneg a' ->
      (match b with
       | Z0 -> (Z0, a)
       | Zpos _ ->
         let (q, r) = pos_div_eucl a' b in
         (match r with
          | Z0 -> ((opp q), Z0)
          | _ -> ((opp (add q (Zpos XH))), (sub b r)))
       | Zneg b' -> let (q, r) = pos_div_eucl a' (Zpos b') in (q, (opp r)))

  (** val div : z -> z -> z **)

  let div a b =
    let (q, _) = div_eucl a b in q

  (** val modulo : z -> z -> z **)

  let modulo a b =
    let (_, r) = div_eucl a b in r

  (** val eq_dec : z -> z -> bool **)

  let eq_dec x y =
    match x with
    | Z0 -> (match y with
             | Z0 -> true
             | _ -> false)
    | Zpos p -> (match y with
                 | Zpos p0 -> Pos.eq_dec p p0
                 | _ -> false)
    | Zneg p -> (match y with
                 | Zneg p0 -> Pos.eq_dec p p0
                 | _ -> false)
 end

(** val hd_error : 'a1 list -> 'a1 option **)

let hd_error = function
| [] -> None
| x :: _ -> Some x

(** val in_dec : ('a1 -> 'a1 -> bool) -> 'a1 -> 'a1 list -> bool **)

let rec in_dec h a = function
| [] -> false
| y :: l0 -> let s = h y a in if s then true else in_dec h a l0

(** val rev : 'a1 list -> 'a1 list **)

let rec rev = function
| [] -> []
| x :: l' -> app (rev l') (x :: [])

(** val list_eq_dec : ('a1 -> 'a1 -> bool) -> 'a1 list -> 'a1 list -> bool **)

let rec list_eq_dec eq_dec0 l l' =
  match l with
  | [] -> (match l' with
           | [] -> true
           | _ :: _ -> false)
  | y :: l0 ->
    (match l' with
     | [] -> false
     | a :: l1 -> if eq_dec0 y a then list_eq_dec eq_dec0 l0 l1 else false)

(** val map : ('a1 -> 'a2) -> 'a1 list -> 'a2 list **)

let rec map f = function
| [] -> []
| a :: t -> (f a) :: (map f t)

(** val flat_map : ('a1 -> 'a2 list) -> 'a1 list -> 'a2 list **)

let rec flat_map f = function
| [] -> []
| x :: t -> app (f x) (flat_map f t)

(** val fold_left : ('a1 -> 'a2 -> 'a1) -> 'a2 list -> 'a1 -> 'a1 **)

let rec fold_left f l a0 =
  match l with
  | [] -> a0
  | b :: t -> fold_left f t (f a0 b)

(** val fold_right : ('a2 -> 'a1 -> 'a1) -> 'a1 -> 'a2 list -> 'a1 **)

let rec fold_right f a0 = function
| [] -> a0
| b :: t -> f b (fold_right f a0 t)

(** val existsb : ('a1 -> bool) -> 'a1 list -> bool **)

let rec existsb f = function
| [] -> false
| a :: l0 -> (||) (f a) (existsb f l0)

(** val filter : ('a1 -> bool) -> 'a1 list -> 'a1 list **)

let rec filter f = function
| [] -> []
| x :: l0 -> if f x then x :: (filter f l0) else filter f l0

(** val find : ('a1 -> bool) -> 'a1 list -> 'a1 option **)

let rec find f = function
| [] -> None
| x :: tl -> if f x then Some x else find f tl

(** val firstn : nat -> 'a1 list -> 'a1 list **)

let rec firstn n0 l =
  match n0 with
  | O -> []
  | S n1 -> (match l with
             | [] -> []
             | a :: l0 -> a :: (firstn n1 l0))

(** val skipn : nat -> 'a1 list -> 'a1 list **)

let rec skipn n0 l =
  match n0 with
  | O -> l
  | S n1 -> (match l with
             | [] -> []
             | _ :: l0 -> skipn n1 l0)

(** val nodup : ('a1 -> 'a1 -> bool) -> 'a1 list -> 'a1 list **)

let rec nodup decA = function
| [] -> []
| x :: xs -> if in_dec decA x xs then nodup decA xs else x :: (nodup decA xs)

(** val key_has_message_types : bool **)

let key_has_message_types =
  true

(** val key_has_return_numpy : bool **)

let key_has_return_numpy =
  true

(** val key_has_keep_messages : bool **)

let key_has_keep_messages =
  true

(** val key_has_time_align : bool **)

let key_has_time_align =
  true

(** val key_has_aligned_message_types : bool **)

let key_has_aligned_message_types =
  true

(** val break_guarded_by_deque : bool **)

let break_guarded_by_deque =
  true

(** val preslice_guarded_by_read_time_tests : bool **)

let preslice_guarded_by_read_time_tests =
  true

(** val reader_intersects_sampled_sources : bool **)

let reader_intersects_sampled_sources =
  false

(** val none_sources_sampled : bool **)

let none_sources_sampled =
  false

(** val all_types : n list **)

let all_types =
  (Npos (XO (XO (XI (XI (XO (XI (XO (XO (XI (XI (XO (XO (XI
    XH)))))))))))))) :: ((Npos (XI (XO (XI (XI (XO (XI (XO (XO (XI (XI (XO
    (XO (XI XH)))))))))))))) :: ((Npos (XO (XI (XI (XI (XO (XI (XO (XO (XI
    (XI (XO (XO (XI XH)))))))))))))) :: ((Npos (XI (XI (XI (XO (XO (XI (XO
    (XI (XI (XI (XO (XO (XI XH)))))))))))))) :: ((Npos (XI (XI (XI (XI (XO
    (XI (XO (XO (XI (XI (XO (XO (XI XH)))))))))))))) :: ((Npos (XO (XO (XI
    (XO (XO (XI (XO (XI (XI (XI (XO (XO (XI XH)))))))))))))) :: ((Npos (XI
    (XO (XI (XO (XO (XI (XO (XI (XI (XI (XO (XO (XI
    XH)))))))))))))) :: ((Npos (XO (XI (XI (XO (XO (XI (XO (XI (XI (XI (XO
    (XO (XI XH)))))))))))))) :: ((Npos (XO (XI (XI (XO (XI (XI (XO (XO (XI
    (XI (XO (XO (XI XH)))))))))))))) :: ((Npos (XI (XI (XI (XO (XI (XI (XO
    (XO (XI (XI (XO (XO (XI XH)))))))))))))) :: ((Npos (XI (XO (XO (XI (XI
    (XI (XO (XO (XI (XI (XO (XO (XI XH)))))))))))))) :: ((Npos (XO (XO (XO
    (XI (XO (XO (XI (XI (XO (XI (XO (XO (XI XH)))))))))))))) :: ((Npos (XI
    (XO (XO (XI (XO (XO (XI (XI (XO (XI (XO (XO (XI
    XH)))))))))))))) :: ((Npos (XO (XI (XO (XI (XO (XO (XI (XI (XO (XI (XO
    (XO (XI XH)))))))))))))) :: ((Npos (XI (XO (XI (XI (XO (XO (XI (XI (XO
    (XI (XO (XO (XI XH)))))))))))))) :: ((Npos (XO (XO (XO (XO (XI (XO (XI
    (XI (XO (XI (XO (XO (XI XH)))))))))))))) :: ((Npos (XI (XI (XO (XI (XO
    (XO (XI (XI (XO (XI (XO (XO (XI XH)))))))))))))) :: ((Npos (XI (XI (XI
    (XI (XO (XO (XI (XI (XO (XI (XO (XO (XI XH)))))))))))))) :: ((Npos (XO
    (XO (XI (XI (XO (XO (XI (XI (XO (XI (XO (XO (XI
    XH)))))))))))))) :: ((Npos (XO (XO (XI (XO (XO (XO (XO (XO (XI (XO (XO
    (XI (XO XH)))))))))))))) :: ((Npos (XO (XO (XO (XO (XI (XI (XO (XI (XO
    (XI (XI (XO (XI XH)))))))))))))) :: ((Npos (XO (XO (XI (XI (XI (XI (XI
    (XI (XO (XI (XO (XI (XO XH)))))))))))))) :: ((Npos (XO (XO (XO (XI (XI
    (XI (XI (XI (XO (XI (XO (XI (XO XH)))))))))))))) :: ((Npos (XO (XI (XO
    (XI (XI (XI (XI (XI (XO (XI (XO (XI (XO XH)))))))))))))) :: ((Npos (XI
    (XO (XO (XO (XO (XI (XI (XO (XI (XI (XO (XI (XO
    XH)))))))))))))) :: ((Npos (XI (XI (XI (XI (XI (XI (XI (XO (XI (XI (XO
    (XI (XO XH)))))))))))))) :: ((Npos (XI (XO (XI (XO (XI (XI (XI (XO (XI
    (XI (XO (XI (XO XH)))))))))))))) :: ((Npos (XO (XI (XO (XO (XO (XI (XI
    (XO (XI (XI (XO (XI (XO XH)))))))))))))) :: ((Npos (XO (XO (XO (XO (XO
    (XO (XO (XI (XI (XI (XO (XI (XO XH)))))))))))))) :: ((Npos (XO (XI (XI
    (XO (XI (XI (XI (XO (XI (XI (XO (XI (XO XH)))))))))))))) :: ((Npos (XI
    (XI (XI (XI (XI (XO (XI (XO (XI (XI (XO (XI (XO
    XH)))))))))))))) :: ((Npos (XI (XI (XO (XO (XI (XI (XI (XO (XI (XI (XO
    (XI (XO XH)))))))))))))) :: ((Npos (XO (XO (XO (XO (XO (XI (XI (XO (XI
    (XI (XO (XI (XO XH)))))))))))))) :: ((Npos (XO (XO (XI (XO (XI (XI (XI
    (XO (XI (XI (XO (XI (XO XH)))))))))))))) :: ((Npos (XI (XO (XI (XI (XI
    (XO (XI (XO (XI (XI (XO (XI (XO XH)))))))))))))) :: ((Npos (XO (XI (XI
    (XI (XI (XO (XI (XO (XI (XI (XO (XI (XO XH)))))))))))))) :: ((Npos (XI
    (XO (XI (XI (XI (XI (XI (XI (XO (XI (XO (XI (XO
    XH)))))))))))))) :: ((Npos (XO (XI (XI (XI (XI (XI (XI (XI (XO (XI (XO
    (XI (XO XH)))))))))))))) :: ((Npos (XO (XO (XO (XO (XO (XO (XI (XO (XI
    (XI (XO (XO (XI XH)))))))))))))) :: ((Npos (XO (XO (XO (XO (XI (XO (XO
    (XO (XI (XI (XI (XO (XO XH)))))))))))))) :: ((Npos (XI (XI (XO (XO (XI
    (XO (XO (XO (XI (XI (XI (XO (XO XH)))))))))))))) :: ((Npos (XI (XO (XO
    (XO (XI (XO (XO (XO (XI (XI (XI (XO (XO XH)))))))))))))) :: ((Npos (XO
    (XI (XO (XO (XI (XO (XO (XO (XI (XI (XI (XO (XO
    XH)))))))))))))) :: ((Npos (XO (XO (XI (XO (XI (XO (XO (XO (XI (XI (XI
    (XO (XO XH)))))))))))))) :: ((Npos (XI (XO (XI (XO (XI (XO (XO (XO (XI
    (XI (XI (XO (XO XH)))))))))))))) :: ((Npos (XO (XI (XI (XI (XO (XO (XI
    (XI (XO (XI (XO (XO (XI XH)))))))))))))) :: ((Npos (XO (XO (XO (XO (XO
    (XI (XI (XI (XO (XI (XI (XI (XO XH)))))))))))))) :: ((Npos (XO (XI (XO
    (XI (XO (XI (XI (XI (XO (XI (XI (XI (XO XH)))))))))))))) :: ((Npos (XI
    (XI (XO (XI (XO (XI (XI (XI (XO (XI (XI (XI (XO
    XH)))))))))))))) :: ((Npos (XO (XO (XI (XO (XI (XO (XO (XO (XI (XI (XI
    (XO (XI XH)))))))))))))) :: ((Npos (XI (XO (XI (XO (XI (XO (XO (XO (XI
    (XI (XI (XO (XI XH)))))))))))))) :: ((Npos (XO (XI (XI (XO (XI (XO (XO
    (XO (XI (XI (XI (XO (XI
    XH)))))))))))))) :: [])))))))))))))))))))))))))))))))))))))))))))))))))))

(** val p1_types : n list **)

let p1_types =
  (Npos (XO (XO (XO (XO (XI (XO (XO (XO (XI (XI (XI (XO (XO
    XH)))))))))))))) :: ((Npos (XI (XO (XO (XO (XI (XO (XO (XO (XI (XI (XI
    (XO (XO XH)))))))))))))) :: ((Npos (XO (XI (XO (XO (XI (XO (XO (XO (XI
    (XI (XI (XO (XO XH)))))))))))))) :: ((Npos (XI (XI (XO (XO (XI (XO (XO
    (XO (XI (XI (XI (XO (XO XH)))))))))))))) :: ((Npos (XO (XO (XI (XO (XI
    (XO (XO (XO (XI (XI (XI (XO (XO XH)))))))))))))) :: ((Npos (XI (XO (XI
    (XO (XI (XO (XO (XO (XI (XI (XI (XO (XO XH)))))))))))))) :: ((Npos (XO
    (XO (XI (XO (XO (XO (XO (XO (XI (XO (XO (XI (XO
    XH)))))))))))))) :: ((Npos (XO (XO (XO (XI (XI (XI (XI (XI (XO (XI (XO
    (XI (XO XH)))))))))))))) :: ((Npos (XO (XI (XO (XI (XI (XI (XI (XI (XO
    (XI (XO (XI (XO XH)))))))))))))) :: ((Npos (XO (XO (XI (XI (XI (XI (XI
    (XI (XO (XI (XO (XI (XO XH)))))))))))))) :: ((Npos (XI (XO (XI (XI (XI
    (XO (XI (XO (XI (XI (XO (XI (XO XH)))))))))))))) :: ((Npos (XO (XO (XO
    (XO (XO (XI (XI (XO (XI (XI (XO (XI (XO XH)))))))))))))) :: ((Npos (XI
    (XO (XO (XO (XO (XI (XI (XO (XI (XI (XO (XI (XO
    XH)))))))))))))) :: ((Npos (XO (XI (XO (XO (XO (XI (XI (XO (XI (XI (XO
    (XI (XO XH)))))))))))))) :: ((Npos (XO (XO (XI (XO (XI (XI (XI (XO (XI
    (XI (XO (XI (XO XH)))))))))))))) :: ((Npos (XI (XO (XI (XO (XI (XI (XI
    (XO (XI (XI (XO (XI (XO XH)))))))))))))) :: ((Npos (XO (XI (XI (XO (XI
    (XI (XI (XO (XI (XI (XO (XI (XO XH)))))))))))))) :: ((Npos (XI (XI (XI
    (XI (XI (XI (XI (XO (XI (XI (XO (XI (XO XH)))))))))))))) :: ((Npos (XO
    (XO (XO (XO (XO (XO (XO (XI (XI (XI (XO (XI (XO
    XH)))))))))))))) :: ((Npos (XO (XO (XO (XO (XO (XI (XI (XI (XO (XI (XI
    (XI (XO XH)))))))))))))) :: ((Npos (XO (XI (XO (XI (XO (XI (XI (XI (XO
    (XI (XI (XI (XO XH)))))))))))))) :: ((Npos (XI (XI (XO (XI (XO (XI (XI
    (XI (XO (XI (XI (XI (XO XH)))))))))))))) :: [])))))))))))))))))))))

(** val sys_types : n list **)

let sys_types =
  (Npos (XI (XI (XO (XI (XO (XO (XI (XI (XO (XI (XO (XO (XI
    XH)))))))))))))) :: ((Npos (XO (XO (XI (XI (XO (XO (XI (XI (XO (XI (XO
    (XO (XI XH)))))))))))))) :: ((Npos (XI (XI (XI (XI (XO (XO (XI (XI (XO
    (XI (XO (XO (XI XH)))))))))))))) :: ((Npos (XO (XO (XO (XO (XO (XO (XI
    (XO (XI (XI (XO (XO (XI XH)))))))))))))) :: ((Npos (XO (XO (XO (XO (XI
    (XI (XO (XI (XO (XI (XI (XO (XI XH)))))))))))))) :: ((Npos (XI (XO (XI
    (XO (XI (XO (XO (XO (XI (XI (XI (XO (XI XH)))))))))))))) :: [])))))

(** val np_p1_types : n list **)

let np_p1_types =
  (Npos (XO (XO (XO (XO (XI (XO (XO (XO (XI (XI (XI (XO (XO
    XH)))))))))))))) :: ((Npos (XI (XO (XO (XO (XI (XO (XO (XO (XI (XI (XI
    (XO (XO XH)))))))))))))) :: ((Npos (XO (XI (XO (XO (XI (XO (XO (XO (XI
    (XI (XI (XO (XO XH)))))))))))))) :: ((Npos (XI (XI (XO (XO (XI (XO (XO
    (XO (XI (XI (XI (XO (XO XH)))))))))))))) :: ((Npos (XO (XO (XI (XO (XI
    (XO (XO (XO (XI (XI (XI (XO (XO XH)))))))))))))) :: ((Npos (XI (XO (XI
    (XO (XI (XO (XO (XO (XI (XI (XI (XO (XO XH)))))))))))))) :: ((Npos (XO
    (XO (XI (XO (XO (XO (XO (XO (XI (XO (XO (XI (XO
    XH)))))))))))))) :: ((Npos (XO (XO (XO (XI (XI (XI (XI (XI (XO (XI (XO
    (XI (XO XH)))))))))))))) :: ((Npos (XO (XI (XO (XI (XI (XI (XI (XI (XO
    (XI (XO (XI (XO XH)))))))))))))) :: ((Npos (XO (XO (XI (XI (XI (XI (XI
    (XI (XO (XI (XO (XI (XO XH)))))))))))))) :: ((Npos (XI (XO (XI (XI (XI
    (XI (XI (XI (XO (XI (XO (XI (XO XH)))))))))))))) :: ((Npos (XO (XI (XI
    (XI (XI (XI (XI (XI (XO (XI (XO (XI (XO XH)))))))))))))) :: ((Npos (XI
    (XO (XI (XI (XI (XO (XI (XO (XI (XI (XO (XI (XO
    XH)))))))))))))) :: ((Npos (XO (XI (XI (XI (XI (XO (XI (XO (XI (XI (XO
    (XI (XO XH)))))))))))))) :: ((Npos (XI (XI (XI (XI (XI (XO (XI (XO (XI
    (XI (XO (XI (XO XH)))))))))))))) :: ((Npos (XO (XO (XO (XO (XO (XI (XI
    (XO (XI (XI (XO (XI (XO XH)))))))))))))) :: ((Npos (XI (XO (XO (XO (XO
    (XI (XI (XO (XI (XI (XO (XI (XO XH)))))))))))))) :: ((Npos (XO (XI (XO
    (XO (XO (XI (XI (XO (XI (XI (XO (XI (XO XH)))))))))))))) :: ((Npos (XI
    (XI (XO (XO (XI (XI (XI (XO (XI (XI (XO (XI (XO
    XH)))))))))))))) :: ((Npos (XO (XO (XI (XO (XI (XI (XI (XO (XI (XI (XO
    (XI (XO XH)))))))))))))) :: ((Npos (XI (XO (XI (XO (XI (XI (XI (XO (XI
    (XI (XO (XI (XO XH)))))))))))))) :: ((Npos (XO (XI (XI (XO (XI (XI (XI
    (XO (XI (XI (XO (XI (XO XH)))))))))))))) :: ((Npos (XI (XI (XI (XI (XI
    (XI (XI (XO (XI (XI (XO (XI (XO XH)))))))))))))) :: ((Npos (XO (XO (XO
    (XO (XO (XO (XO (XI (XI (XI (XO (XI (XO XH)))))))))))))) :: ((Npos (XO
    (XO (XO (XO (XO (XI (XI (XI (XO (XI (XI (XI (XO
    XH)))))))))))))) :: ((Npos (XO (XI (XO (XI (XO (XI (XI (XI (XO (XI (XI
    (XI (XO XH)))))))))))))) :: ((Npos (XI (XI (XO (XI (XO (XI (XI (XI (XO
    (XI (XI (XI (XO XH)))))))))))))) :: []))))))))))))))))))))))))))

(** val dict_p1_types : n list **)

let dict_p1_types =
  (Npos (XO (XO (XO (XO (XI (XO (XO (XO (XI (XI (XI (XO (XO
    XH)))))))))))))) :: ((Npos (XI (XO (XO (XO (XI (XO (XO (XO (XI (XI (XI
    (XO (XO XH)))))))))))))) :: ((Npos (XO (XI (XO (XO (XI (XO (XO (XO (XI
    (XI (XI (XO (XO XH)))))))))))))) :: ((Npos (XI (XI (XO (XO (XI (XO (XO
    (XO (XI (XI (XI (XO (XO XH)))))))))))))) :: ((Npos (XO (XO (XI (XO (XI
    (XO (XO (XO (XI (XI (XI (XO (XO XH)))))))))))))) :: ((Npos (XI (XO (XI
    (XO (XI (XO (XO (XO (XI (XI (XI (XO (XO XH)))))))))))))) :: ((Npos (XO
    (XO (XI (XO (XO (XO (XO (XO (XI (XO (XO (XI (XO
    XH)))))))))))))) :: ((Npos (XO (XO (XO (XI (XI (XI (XI (XI (XO (XI (XO
    (XI (XO XH)))))))))))))) :: ((Npos (XI (XI (XI (XI (XI (XI (XI (XO (XI
    (XI (XO (XI (XO XH)))))))))))))) :: ((Npos (XO (XO (XO (XO (XO (XO (XO
    (XI (XI (XI (XO (XI (XO XH)))))))))))))) :: ((Npos (XO (XO (XO (XO (XO
    (XI (XI (XI (XO (XI (XI (XI (XO XH)))))))))))))) :: ((Npos (XO (XI (XO
    (XI (XO (XI (XI (XI (XO (XI (XI (XI (XO XH)))))))))))))) :: ((Npos (XI
    (XI (XO (XI (XO (XI (XI (XI (XO (XI (XI (XI (XO
    XH)))))))))))))) :: []))))))))))))

(** val align_none : n **)

let align_none =
  N0

(** val align_drop : n **)

let align_drop =
  Npos XH

(** val align_insert : n **)

let align_insert =
  Npos (XO XH)

(** val memN : n -> n list -> bool **)

let memN x l =
  existsb (N.eqb x) l

(** val is_some : 'a1 option -> bool **)

let is_some = function
| Some _ -> true
| None -> false

(** val insertZ : z -> z list -> z list **)

let rec insertZ x l = match l with
| [] -> x :: []
| y :: l' -> if Z.leb x y then x :: l else y :: (insertZ x l')

(** val sortZ : z list -> z list **)

let sortZ l =
  fold_right insertZ [] l

(** val dedupZ : z list -> z list **)

let rec dedupZ = function
| [] -> []
| x :: l' ->
  (match l' with
   | [] -> x :: []
   | y :: _ -> if Z.eqb x y then dedupZ l' else x :: (dedupZ l'))

(** val norm_setZ : z list -> z list **)

let norm_setZ l =
  dedupZ (sortZ l)

(** val insertN : n -> n list -> n list **)

let rec insertN x l = match l with
| [] -> x :: []
| y :: l' -> if N.leb x y then x :: l else y :: (insertN x l')

(** val sortN : n list -> n list **)

let sortN l =
  fold_right insertN [] l

(** val norm_set : n list -> n list **)

let norm_set l =
  nodup N.eq_dec (sortN l)

(** val lastn : nat -> 'a1 list -> 'a1 list **)

let lastn n0 l =
  skipn (sub (length l) n0) l

(** val deque_push : nat -> 'a1 list -> 'a1 -> 'a1 list **)

let deque_push n0 dq x =
  lastn n0 (app dq (x :: []))

type dLmsg = { m_ord : n; m_type : n; m_src : n; m_time : z option;
               m_p1_some : bool; m_sys_some : bool; m_decodes : bool }

type rmsg =
| RFile of dLmsg
| RDefault of n * z option

(** val rm_time : rmsg -> z option **)

let rm_time = function
| RFile m -> m.m_time
| RDefault (_, t) -> t

type trange = { tr_start : z option; tr_end : z option; tr_abs : bool }

type args = { a_types : n list option; a_tr : trange; a_src : n list option;
              a_ignore : bool; a_max : z option; a_p1 : bool; a_sys : 
              bool; a_order : bool; a_bytes : bool; a_idx : bool;
              a_numpy : bool; a_keep : bool; a_nan : bool; a_align : 
              n; a_atypes : n list option }

type params = { p_tr : trange; p_max : z option; p_p1 : bool; p_sys : 
                bool; p_bytes : bool; p_idx : bool; p_nan : bool;
                p_src : n list option; p_types : n list option;
                p_numpy : bool; p_keep : bool; p_align : n;
                p_atypes : n list option }

type variant = { v_key_types : bool; v_key_numpy : bool; v_key_keep : 
                 bool; v_key_align : bool; v_key_atypes : bool;
                 v_reread_all : bool; v_break_guarded : bool;
                 v_preslice_guarded : bool }

(** val current : variant **)

let current =
  { v_key_types = key_has_message_types; v_key_numpy = key_has_return_numpy;
    v_key_keep = key_has_keep_messages; v_key_align = key_has_time_align;
    v_key_atypes = key_has_aligned_message_types; v_reread_all = true;
    v_break_guarded = break_guarded_by_deque; v_preslice_guarded =
    preslice_guarded_by_read_time_tests }

(** val legacy : variant **)

let legacy =
  { v_key_types = false; v_key_numpy = false; v_key_keep = false;
    v_key_align = false; v_key_atypes = false; v_reread_all = false;
    v_break_guarded = false; v_preslice_guarded = false }

(** val key_of : variant -> params -> params **)

let key_of v p =
  { p_tr = p.p_tr; p_max = p.p_max; p_p1 = p.p_p1; p_sys = p.p_sys; p_bytes =
    p.p_bytes; p_idx = p.p_idx; p_nan = p.p_nan; p_src = p.p_src; p_types =
    (if v.v_key_types then p.p_types else None); p_numpy =
    (if v.v_key_numpy then p.p_numpy else false); p_keep =
    (if v.v_key_keep then p.p_keep else false); p_align =
    (if v.v_key_align then p.p_align else N0); p_atypes =
    (if v.v_key_atypes then p.p_atypes else None) }

(** val optZ_eq_dec : z option -> z option -> bool **)

let optZ_eq_dec a b =
  match a with
  | Some a0 -> (match b with
                | Some a1 -> Z.eq_dec a0 a1
                | None -> false)
  | None -> (match b with
             | Some _ -> false
             | None -> true)

(** val listN_eq_dec : n list -> n list -> bool **)

let listN_eq_dec =
  list_eq_dec N.eq_dec

(** val optlistN_eq_dec : n list option -> n list option -> bool **)

let optlistN_eq_dec a b =
  match a with
  | Some a0 -> (match b with
                | Some a1 -> listN_eq_dec a0 a1
                | None -> false)
  | None -> (match b with
             | Some _ -> false
             | None -> true)

(** val trange_eq_dec : trange -> trange -> bool **)

let trange_eq_dec a b =
  let { tr_start = tr_start1; tr_end = tr_end1; tr_abs = tr_abs1 } = a in
  let { tr_start = tr_start2; tr_end = tr_end2; tr_abs = tr_abs2 } = b in
  if optZ_eq_dec tr_start1 tr_start2
  then if optZ_eq_dec tr_end1 tr_end2 then bool_dec tr_abs1 tr_abs2 else false
  else false

(** val params_eq_dec : params -> params -> bool **)

let params_eq_dec a b =
  let { p_tr = p_tr0; p_max = p_max0; p_p1 = p_p2; p_sys = p_sys0; p_bytes =
    p_bytes0; p_idx = p_idx0; p_nan = p_nan0; p_src = p_src0; p_types =
    p_types0; p_numpy = p_numpy0; p_keep = p_keep0; p_align = p_align0;
    p_atypes = p_atypes0 } = a
  in
  let { p_tr = p_tr1; p_max = p_max1; p_p1 = p_p3; p_sys = p_sys1; p_bytes =
    p_bytes1; p_idx = p_idx1; p_nan = p_nan1; p_src = p_src1; p_types =
    p_types1; p_numpy = p_numpy1; p_keep = p_keep1; p_align = p_align1;
    p_atypes = p_atypes1 } = b
  in
  if trange_eq_dec p_tr0 p_tr1
  then if optZ_eq_dec p_max0 p_max1
       then if bool_dec p_p2 p_p3
            then if bool_dec p_sys0 p_sys1
                 then if bool_dec p_bytes0 p_bytes1
                      then if bool_dec p_idx0 p_idx1
                           then if bool_dec p_nan0 p_nan1
                                then if optlistN_eq_dec p_src0 p_src1
                                     then if optlistN_eq_dec p_types0 p_types1
                                          then if bool_dec p_numpy0 p_numpy1
                                               then if bool_dec p_keep0
                                                         p_keep1
                                                    then if N.eq_dec p_align0
                                                              p_align1
                                                         then optlistN_eq_dec
                                                                p_atypes0
                                                                p_atypes1
                                                         else false
                                                    else false
                                               else false
                                          else false
                                     else false
                                else false
                           else false
                      else false
                 else false
            else false
       else false
  else false

type data = { d_msgs : rmsg list; d_np : rmsg list option; d_idx : n list;
              d_idx_arr : bool; d_bytes : n list; d_bytes_arr : bool }

(** val empty_data : data **)

let empty_data =
  { d_msgs = []; d_np = None; d_idx = []; d_idx_arr = false; d_bytes = [];
    d_bytes_arr = false }

(** val add_message : bool -> bool -> data -> dLmsg -> data **)

let add_message rb ri d m =
  { d_msgs = (app d.d_msgs ((RFile m) :: [])); d_np = d.d_np; d_idx =
    (if ri then app d.d_idx (m.m_ord :: []) else d.d_idx); d_idx_arr =
    d.d_idx_arr; d_bytes =
    (if rb then app d.d_bytes (m.m_ord :: []) else d.d_bytes); d_bytes_arr =
    d.d_bytes_arr }

(** val time_neq : z option -> z option -> bool **)

let time_neq a b =
  match a with
  | Some x -> (match b with
               | Some y -> negb (Z.eqb x y)
               | None -> true)
  | None -> true

(** val mask_filter : bool list -> 'a1 list -> 'a1 list **)

let rec mask_filter mask l =
  match mask with
  | [] -> []
  | b :: mask' ->
    (match l with
     | [] -> []
     | x :: l' ->
       if b then x :: (mask_filter mask' l') else mask_filter mask' l')

(** val mask_same_len : bool list -> 'a1 list -> 'a1 list **)

let mask_same_len mask l =
  if Nat.eqb (length l) (length mask) then mask_filter mask l else l

(** val entry_to_numpy : bool -> bool -> bool -> bool -> n -> data -> data **)

let entry_to_numpy nan keep keepb keepi ty d =
  if negb (memN ty all_types)
  then d
  else let have_cached = (&&) (is_some d.d_np) (memN ty np_p1_types) in
       let do_conversion =
         if have_cached
         then (match d.d_msgs with
               | [] -> false
               | m0 :: _ ->
                 (match d.d_np with
                  | Some rows ->
                    (||)
                      ((||) (negb (Nat.eqb (length d.d_msgs) (length rows)))
                        (match hd_error rows with
                         | Some r0 -> time_neq (rm_time m0) (rm_time r0)
                         | None -> true))
                      (match hd_error (rev d.d_msgs) with
                       | Some ml ->
                         (match hd_error (rev rows) with
                          | Some rl -> time_neq (rm_time ml) (rm_time rl)
                          | None -> true)
                       | None -> true)
                  | None -> true))
         else true
       in
       if (&&) do_conversion (negb (Nat.eqb (length d.d_bytes) O))
       then { d_msgs = d.d_msgs; d_np = (Some d.d_msgs); d_idx = d.d_idx;
              d_idx_arr = d.d_idx_arr; d_bytes = d.d_bytes; d_bytes_arr =
              d.d_bytes_arr }
       else let d1 =
              if do_conversion
              then let rows = d.d_msgs in
                   if (&&) nan (memN ty np_p1_types)
                   then let mask = map (fun r -> is_some (rm_time r)) rows in
                        { d_msgs = d.d_msgs; d_np = (Some
                        (mask_filter mask rows)); d_idx =
                        (mask_same_len mask d.d_idx); d_idx_arr = true;
                        d_bytes = (mask_same_len mask d.d_bytes);
                        d_bytes_arr = true }
                   else { d_msgs = d.d_msgs; d_np = (Some rows); d_idx =
                          d.d_idx; d_idx_arr = true; d_bytes = d.d_bytes;
                          d_bytes_arr = true }
              else d
            in
            { d_msgs = (if keep then d1.d_msgs else []); d_np = d1.d_np;
            d_idx = (if keepi then d1.d_idx else []); d_idx_arr =
            (if keepi then d1.d_idx_arr else false); d_bytes =
            (if keepb then d1.d_bytes else []); d_bytes_arr =
            (if keepb then d1.d_bytes_arr else false) }

type env = { e_log : dLmsg list; e_avail : n list;
             e_tfilter : (trange -> dLmsg list -> dLmsg list);
             e_nonnan : (dLmsg list -> dLmsg list);
             e_align : (n -> n list option -> (n * data) list -> (n * data)
                       list) }

type entry = params * data

type state = { s_cache : (n -> entry option); s_need_t0 : bool;
               s_need_sys_t0 : bool }

(** val init_state : state **)

let init_state =
  { s_cache = (fun _ -> None); s_need_t0 = false; s_need_sys_t0 = false }

type outcome =
| OutDict of (n * data) list
| OutOrder of data
| OutUnmodelled

(** val cache_set : (n -> entry option) -> n -> entry -> n -> entry option **)

let cache_set c t e t' =
  if N.eqb t' t then Some e else c t'

(** val index_select : env -> params -> n list -> bool -> dLmsg list **)

let index_select e p types sys_requested =
  let i1 = e.e_tfilter p.p_tr e.e_log in
  let i2 = filter (fun m -> memN m.m_type types) i1 in
  if (&&) p.p_p1 (negb sys_requested) then e.e_nonnan i2 else i2

(** val pre_slice : z -> dLmsg list -> dLmsg list **)

let pre_slice n0 l =
  if Z.leb Z0 n0
  then firstn (Z.to_nat n0) l
  else lastn (Z.to_nat (Z.opp n0)) l

(** val read_pass : env -> params -> dLmsg -> bool **)

let read_pass e p m =
  (&&)
    ((&&)
      ((&&)
        (match p.p_src with
         | Some s ->
           (&&) (memN m.m_src s)
             ((||) (negb reader_intersects_sampled_sources)
               (memN m.m_src e.e_avail))
         | None -> true) m.m_decodes) (if p.p_p1 then m.m_p1_some else true))
    (if p.p_sys then m.m_sys_some else true)

(** val read_loop :
    variant -> z option -> bool -> (dLmsg -> bool) -> dLmsg list -> z ->
    dLmsg list -> dLmsg list -> dLmsg list * dLmsg list **)

let rec read_loop v maxm use_deque pass l count acc dq =
  match l with
  | [] -> (acc, dq)
  | m :: l' ->
    if negb (pass m)
    then read_loop v maxm use_deque pass l' count acc dq
    else let count' = Z.add count (Zpos XH) in
         let acc' =
           if use_deque
           then acc
           else (match maxm with
                 | Some n0 ->
                   if Z.leb count' (Z.abs n0) then app acc (m :: []) else acc
                 | None -> app acc (m :: []))
         in
         let dq' =
           if use_deque
           then (match maxm with
                 | Some n0 -> deque_push (Z.to_nat (Z.abs n0)) dq m
                 | None -> dq)
           else dq
         in
         let stop =
           match maxm with
           | Some n0 ->
             (&&) (Z.eqb count' (Z.abs n0))
               ((||) (negb v.v_break_guarded) (negb use_deque))
           | None -> false
         in
         if stop
         then (acc', dq')
         else read_loop v maxm use_deque pass l' count' acc' dq'

(** val preslice_applied : variant -> params -> bool -> bool **)

let preslice_applied v p sys_requested =
  (&&) ((&&) (is_some p.p_max) (negb ((&&) p.p_sys sys_requested)))
    (if v.v_preslice_guarded
     then (&&) (negb (is_some p.p_src)) (negb p.p_p1)
     else true)

(** val read_messages :
    variant -> env -> params -> n list -> n list -> dLmsg list **)

let read_messages v e p types needed =
  let sys_requested = existsb (fun t -> memN t sys_types) needed in
  let idx = index_select e p types sys_requested in
  let applied = preslice_applied v p sys_requested in
  let idx' =
    match p.p_max with
    | Some n0 -> if applied then pre_slice n0 idx else idx
    | None -> idx
  in
  let use_deque =
    match p.p_max with
    | Some n0 -> (&&) (Z.ltb n0 Z0) (negb applied)
    | None -> false
  in
  let (acc, dq) = read_loop v p.p_max use_deque (read_pass e p) idx' Z0 [] []
  in
  app acc dq

(** val of_type : n -> dLmsg list -> dLmsg list **)

let of_type t l =
  filter (fun m -> N.eqb m.m_type t) l

(** val reduce_needed : params -> n list -> n list **)

let reduce_needed p needed =
  let supported = filter (fun t -> memN t all_types) needed in
  if (&&) p.p_p1 p.p_sys
  then filter (fun t -> (||) (memN t p1_types) (memN t sys_types)) supported
  else if p.p_p1
       then filter (fun t -> memN t p1_types) supported
       else if p.p_sys
            then filter (fun t -> memN t sys_types) supported
            else supported

(** val norm_args : env -> args -> (params * n list) * bool **)

let norm_args e a =
  let src =
    match a.a_src with
    | Some s -> Some (norm_set s)
    | None -> if none_sources_sampled then Some (norm_set e.e_avail) else None
  in
  let ignore = (||) a.a_order a.a_ignore in
  let numpy = if a.a_order then false else a.a_numpy in
  let align = if a.a_order then align_none else a.a_align in
  let types =
    match a.a_types with
    | Some l -> (match l with
                 | [] -> norm_set all_types
                 | _ :: _ -> norm_set l)
    | None -> norm_set all_types
  in
  (({ p_tr = a.a_tr; p_max = a.a_max; p_p1 = a.a_p1; p_sys = a.a_sys;
  p_bytes = a.a_bytes; p_idx = a.a_idx; p_nan = a.a_nan; p_src = src;
  p_types = (Some types); p_numpy = numpy; p_keep = a.a_keep; p_align =
  align; p_atypes = a.a_atypes }, types), ignore)

(** val post_process : env -> params -> (n * data) list -> (n * data) list **)

let post_process e p r =
  let r1 =
    if N.eqb p.p_align align_none then r else e.e_align p.p_align p.p_atypes r
  in
  if p.p_numpy
  then map (fun td -> ((fst td),
         (entry_to_numpy p.p_nan p.p_keep p.p_bytes p.p_idx (fst td) (snd td))))
         r1
  else r1

(** val lookup_data : n -> (n * data) list -> data option **)

let lookup_data t r =
  match find (fun td -> N.eqb (fst td) t) r with
  | Some td -> Some (snd td)
  | None -> None

(** val needs_t0 : state -> n list -> bool **)

let needs_t0 st needed' =
  (||) ((&&) st.s_need_t0 (existsb (fun t -> memN t p1_types) needed'))
    ((&&) st.s_need_sys_t0 (existsb (fun t -> memN t sys_types) needed'))

(** val fill : params -> dLmsg list -> (n * data) list -> (n * data) list **)

let fill p msgs r =
  map (fun td -> ((fst td),
    (fold_left (add_message p.p_bytes p.p_idx) (of_type (fst td) msgs)
      (snd td)))) r

(** val write_back :
    n list -> (n -> entry option) -> (n * data) list -> n -> entry option **)

let write_back types c r =
  fold_left (fun c0 t ->
    match lookup_data t r with
    | Some d ->
      (match c0 t with
       | Some y -> let (k, _) = y in cache_set c0 t (k, d)
       | None -> c0)
    | None -> c0) types c

(** val with_cache : state -> (n -> entry option) -> state **)

let with_cache st c =
  { s_cache = c; s_need_t0 = st.s_need_t0; s_need_sys_t0 = st.s_need_sys_t0 }

(** val read_gen : variant -> env -> state -> args -> state * outcome **)

let read_gen v e st a =
  let (p0, ignore) = norm_args e a in
  let (p, types) = p0 in
  let key0 = key_of v p in
  let missing =
    filter (fun t ->
      match st.s_cache t with
      | Some e0 ->
        let (k, _) = e0 in if params_eq_dec k key0 then false else true
      | None -> true) types
  in
  let needed =
    if ignore
    then types
    else if v.v_reread_all
         then (match missing with
               | [] -> []
               | _ :: _ -> types)
         else missing
  in
  let base = if ignore then (fun _ -> None) else st.s_cache in
  let cache1 =
    if a.a_order
    then base
    else fold_left (fun c t -> cache_set c t (key0, empty_data)) needed base
  in
  let needed' = reduce_needed p needed in
  if a.a_order
  then (match needed' with
        | [] -> (st, (OutOrder empty_data))
        | _ :: _ ->
          if needs_t0 st needed'
          then (st, OutUnmodelled)
          else (st, (OutOrder
                 (fold_left (add_message p.p_bytes p.p_idx)
                   (read_messages v e p types needed') empty_data))))
  else let result0 =
         map (fun t -> (t,
           (match cache1 t with
            | Some e0 -> let (_, d) = e0 in d
            | None -> empty_data))) types
       in
       (match needed' with
        | [] ->
          ((if ignore then st else with_cache st cache1), (OutDict result0))
        | _ :: _ ->
          if needs_t0 st needed'
          then (st, OutUnmodelled)
          else let result2 =
                 post_process e p
                   (fill p (read_messages v e p types needed') result0)
               in
               ((if ignore
                 then st
                 else with_cache st (write_back types cache1 result2)),
               (OutDict result2)))

(** val run_gen : variant -> env -> state -> args list -> state **)

let run_gen v e st h =
  fold_left (fun s a -> fst (read_gen v e s a)) h st

(** val spec_pass : env -> args -> params -> bool -> dLmsg -> bool **)

let spec_pass e a p all_sources m =
  if all_sources
  then (&&)
         ((&&)
           ((&&) (match a.a_src with
                  | Some s -> memN m.m_src s
                  | None -> true) m.m_decodes)
           (if p.p_p1 then m.m_p1_some else true))
         (if p.p_sys then m.m_sys_some else true)
  else read_pass e p m

(** val spec_selected : env -> args -> bool -> dLmsg list **)

let spec_selected e a all_sources =
  let (p0, _) = norm_args e a in
  let (p, types) = p0 in
  let needed = reduce_needed p types in
  (match needed with
   | [] -> []
   | _ :: _ ->
     filter (spec_pass e a p all_sources)
       (index_select e p types (existsb (fun t -> memN t sys_types) needed)))

(** val limit : z option -> dLmsg list -> dLmsg list **)

let limit n0 l =
  match n0 with
  | Some n1 ->
    if Z.leb Z0 n1
    then firstn (Z.to_nat n1) l
    else lastn (Z.to_nat (Z.opp n1)) l
  | None -> l

(** val spec_messages : env -> args -> bool -> dLmsg list **)

let spec_messages e a all_sources =
  limit a.a_max (spec_selected e a all_sources)

(** val diag : env -> args -> bool * nat **)

let diag e a =
  let (p0, _) = norm_args e a in
  let (p, types) = p0 in
  let needed = reduce_needed p types in
  let sys_requested = existsb (fun t -> memN t sys_types) needed in
  ((preslice_applied current p sys_requested),
  (length
    (filter (fun m -> negb (read_pass e p m))
      (index_select e p types sys_requested))))

(** val trange_eqb : trange -> trange -> bool **)

let trange_eqb a b =
  if trange_eq_dec a b then true else false

(** val tfilter_table :
    (trange * n list) list -> trange -> dLmsg list -> dLmsg list **)

let tfilter_table tab tr l =
  match find (fun e -> trange_eqb (fst e) tr) tab with
  | Some p -> let (_, ords) = p in filter (fun m -> memN m.m_ord ords) l
  | None -> []

(** val participating : n list option -> n -> bool **)

let participating atypes ty =
  (&&) (memN ty dict_p1_types)
    (match atypes with
     | Some l -> memN ty l
     | None -> true)

(** val somes : 'a1 option list -> 'a1 list **)

let rec somes = function
| [] -> []
| o :: l' -> (match o with
              | Some x -> x :: (somes l')
              | None -> somes l')

(** val times_of : data -> z list **)

let times_of d =
  somes (map rm_time d.d_msgs)

(** val memZ : z -> z list -> bool **)

let memZ x l =
  existsb (Z.eqb x) l

(** val first_at : z -> rmsg list -> rmsg option **)

let first_at t msgs =
  find (fun r -> match rm_time r with
                 | Some x -> Z.eqb x t
                 | None -> false) msgs

(** val set_msgs : data -> rmsg list -> data **)

let set_msgs d ms =
  { d_msgs = ms; d_np = d.d_np; d_idx = d.d_idx; d_idx_arr = d.d_idx_arr;
    d_bytes = d.d_bytes; d_bytes_arr = d.d_bytes_arr }

(** val align_impl :
    n -> n list option -> (n * data) list -> (n * data) list **)

let align_impl mode atypes r =
  let part = filter (fun td -> participating atypes (fst td)) r in
  if N.eqb mode align_drop
  then (match part with
        | [] -> r
        | td0 :: rest ->
          let common =
            fold_left (fun acc td ->
              filter (fun t -> memZ t (times_of (snd td))) acc) rest
              (norm_setZ (times_of (snd td0)))
          in
          map (fun td ->
            if participating atypes (fst td)
            then ((fst td),
                   (set_msgs (snd td)
                     (flat_map (fun t ->
                       match first_at t (snd td).d_msgs with
                       | Some m -> m :: []
                       | None -> []) common)))
            else td) r)
  else if N.eqb mode align_insert
       then (match part with
             | [] -> r
             | _ :: _ ->
               let all =
                 norm_setZ (flat_map (fun td -> times_of (snd td)) part)
               in
               let has_nan =
                 existsb (fun td ->
                   existsb (fun m -> negb (is_some (rm_time m)))
                     (snd td).d_msgs) part
               in
               let time_set =
                 app (map (fun x -> Some x) all)
                   (if has_nan then None :: [] else [])
               in
               map (fun td ->
                 if participating atypes (fst td)
                 then ((fst td),
                        (set_msgs (snd td)
                          (map (fun ot ->
                            match ot with
                            | Some t ->
                              (match first_at t (snd td).d_msgs with
                               | Some m -> m
                               | None -> RDefault ((fst td), (Some t)))
                            | None -> RDefault ((fst td), None)) time_set)))
                 else td) r)
       else r

(** val concrete_env :
    dLmsg list -> n list -> (trange * n list) list -> n list -> env **)

let concrete_env log avail tab nonnan =
  { e_log = log; e_avail = avail; e_tfilter = (tfilter_table tab); e_nonnan =
    (filter (fun m -> memN m.m_ord nonnan)); e_align = align_impl }

(** val read_size_bytes : z **)

let read_size_bytes =
  Zpos (XO (XO (XO (XO (XO (XO (XO (XO (XO (XO (XO (XO (XO (XO (XI (XO
    XH))))))))))))))))

type fixes = { fx_payload : bool; fx_after_log : bool; fx_time_first : 
               bool; fx_remove_nans : bool; fx_last_off : bool;
               fx_populate_rewind : bool; fx_srcs_as_requested : bool }

(** val fixed : fixes **)

let fixed =
  { fx_payload = true; fx_after_log = true; fx_time_first = true;
    fx_remove_nans = true; fx_last_off = true; fx_populate_rewind = true;
    fx_srcs_as_requested = true }

type err =
| IndexError
| ValueError
| UnboundLocalError
| Unsupported
| InternalError

type 'a res =
| Ok of 'a
| Err of err

type entry0 = { e_time : z option; e_type : z; e_off : z; e_idx : z }

type findex = { fi_data : entry0 list; fi_t0 : z option }

(** val zlen : 'a1 list -> z **)

let zlen l =
  Z.of_nat (length l)

(** val find_first_from : bool list -> z -> z **)

let rec find_first_from l i =
  match l with
  | [] -> Zneg XH
  | b :: t -> if b then i else find_first_from t (Z.add i (Zpos XH))

(** val find_first : bool list -> z **)

let find_first l =
  find_first_from l Z0

(** val first_time : entry0 list -> z option **)

let rec first_time = function
| [] -> None
| e :: t -> (match e.e_time with
             | Some x -> Some x
             | None -> first_time t)

(** val mk_index : entry0 list -> z option -> findex **)

let mk_index data0 t0 =
  { fi_data = data0; fi_t0 =
    (match t0 with
     | Some x -> Some x
     | None -> first_time data0) }

(** val slice_nn : 'a1 list -> z -> z -> 'a1 list **)

let slice_nn l s e =
  firstn (Z.to_nat (Z.sub e s)) (skipn (Z.to_nat s) l)

(** val filter_i_from : (z -> 'a1 -> bool) -> z -> 'a1 list -> 'a1 list **)

let rec filter_i_from f i = function
| [] -> []
| x :: t ->
  if f i x
  then x :: (filter_i_from f (Z.add i (Zpos XH)) t)
  else filter_i_from f (Z.add i (Zpos XH)) t

(** val filter_i : (z -> 'a1 -> bool) -> 'a1 list -> 'a1 list **)

let filter_i f l =
  filter_i_from f Z0 l

(** val is_nan : entry0 -> bool **)

let is_nan e =
  match e.e_time with
  | Some _ -> false
  | None -> true

(** val time_ge_s : z -> entry0 -> bool **)

let time_ge_s s e =
  match e.e_time with
  | Some t -> Z.leb s t
  | None -> false

(** val time_ge_8 : z -> entry0 -> bool **)

let time_ge_8 x8 e =
  match e.e_time with
  | Some t -> Z.leb x8 (Z.mul (Zpos (XO (XO (XO XH)))) t)
  | None -> false

type bnd =
| BNone
| BNaN
| BVal of z

(** val bnd_is_none : bnd -> bool **)

let bnd_is_none = function
| BNone -> true
| _ -> false

type hint =
| IncludeNans
| AllNans
| RemoveNans

(** val hint_is_include : hint -> bool **)

let hint_is_include = function
| IncludeNans -> true
| _ -> false

type trange0 = { tr_start0 : z option; tr_end0 : z option; tr_abs0 : 
                 bool; tr_t0 : z option }

(** val bnd_add : z option -> z option -> bnd **)

let bnd_add t0 = function
| Some v -> (match t0 with
             | Some t -> BVal (Z.add t v)
             | None -> BNaN)
| None -> BNone

(** val bnd_of : z option -> bnd **)

let bnd_of = function
| Some v -> BVal v
| None -> BNone

(** val resolve_range : findex -> trange0 -> bnd * bnd **)

let resolve_range fi r =
  if r.tr_abs0
  then ((bnd_of r.tr_start0), (bnd_of r.tr_end0))
  else let p1_t0 =
         match r.tr_t0 with
         | Some t -> Some t
         | None ->
           (match fi.fi_t0 with
            | Some s -> Some (Z.mul (Zpos (XO (XO (XO XH)))) s)
            | None -> None)
       in
       ((bnd_add p1_t0 r.tr_start0), (bnd_add p1_t0 r.tr_end0))

(** val get_time_range_b :
    fixes -> findex -> bnd -> bnd -> hint -> findex res **)

let get_time_range_b fx fi start stop h =
  let data0 = fi.fi_data in
  let n0 = zlen data0 in
  if Z.eqb n0 Z0
  then Ok (mk_index data0 fi.fi_t0)
  else if (&&) ((&&) (bnd_is_none start) (bnd_is_none stop))
            (if fx.fx_remove_nans then hint_is_include h else true)
       then Ok (mk_index data0 fi.fi_t0)
       else (match fi.fi_t0 with
             | Some _ ->
               let start_idx =
                 match start with
                 | BNone -> Z0
                 | BNaN -> find_first (map (fun _ -> false) data0)
                 | BVal s ->
                   find_first
                     (map (time_ge_s (Z.div s (Zpos (XO (XO (XO XH))))))
                       data0)
               in
               let end_idx =
                 match stop with
                 | BNone -> n0
                 | BNaN -> find_first (map (fun _ -> false) data0)
                 | BVal s -> find_first (map (time_ge_8 s) data0)
               in
               let start_idx0 =
                 if Z.ltb start_idx Z0
                 then if fx.fx_after_log then n0 else Z0
                 else start_idx
               in
               let end_idx0 = if Z.ltb end_idx Z0 then n0 else end_idx in
               (match h with
                | IncludeNans ->
                  Ok (mk_index (slice_nn data0 start_idx0 end_idx0) fi.fi_t0)
                | AllNans ->
                  Ok
                    (mk_index
                      (filter_i (fun i e ->
                        (||) ((&&) (Z.leb start_idx0 i) (Z.ltb i end_idx0))
                          (is_nan e)) data0) fi.fi_t0)
                | RemoveNans ->
                  Ok
                    (mk_index
                      (filter_i (fun i e ->
                        (&&) ((&&) (Z.leb start_idx0 i) (Z.ltb i end_idx0))
                          (negb (is_nan e))) data0) fi.fi_t0))
             | None ->
               if (&&) ((&&) fx.fx_remove_nans (bnd_is_none start))
                    (bnd_is_none stop)
               then Ok
                      (mk_index
                        (filter (fun e ->
                          match h with
                          | RemoveNans -> negb (is_nan e)
                          | _ -> true) data0) None)
               else Err IndexError)

(** val get_time_range_R :
    fixes -> findex -> trange0 -> hint -> findex res **)

let get_time_range_R fx fi r h =
  let (s, e) = resolve_range fi r in get_time_range_b fx fi s e h

type key =
| KNone
| KTypes of z list
| KTimeSlice of z option * z option * hint option
| KTimeRange of trange0
| KIdxSlice of z option * z option * z option

(** val memZ0 : z -> z list -> bool **)

let memZ0 x l =
  existsb (Z.eqb x) l

(** val norm_idx : z -> z option -> z -> z **)

let norm_idx n0 x dflt =
  match x with
  | Some a -> if Z.ltb a Z0 then Z.max (Z.add a n0) Z0 else Z.min a n0
  | None -> dflt

(** val py_slice : 'a1 list -> z option -> z option -> z -> 'a1 list **)

let py_slice l a b step =
  let n0 = zlen l in
  let s = norm_idx n0 a Z0 in
  let e = norm_idx n0 b n0 in
  filter_i (fun i _ -> Z.eqb (Z.modulo i step) Z0) (slice_nn l s e)

(** val getitem : fixes -> findex -> key -> findex res **)

let getitem fx fi k = match k with
| KNone -> Ok fi
| _ ->
  if Z.eqb (zlen fi.fi_data) Z0
  then Ok { fi_data = []; fi_t0 = None }
  else (match k with
        | KNone -> Ok fi
        | KTypes ts ->
          Ok
            (mk_index (filter (fun e -> memZ0 e.e_type ts) fi.fi_data)
              fi.fi_t0)
        | KTimeSlice (s, e, h) ->
          (match s with
           | Some _ ->
             get_time_range_b fx fi (bnd_of s) (bnd_of e)
               (match h with
                | Some x -> x
                | None -> IncludeNans)
           | None ->
             (match e with
              | Some _ ->
                get_time_range_b fx fi (bnd_of s) (bnd_of e)
                  (match h with
                   | Some x -> x
                   | None -> IncludeNans)
              | None ->
                (match h with
                 | Some x ->
                   if fx.fx_remove_nans
                   then get_time_range_b fx fi BNone BNone x
                   else Err Unsupported
                 | None -> Err Unsupported)))
        | KTimeRange r -> get_time_range_R fx fi r IncludeNans
        | KIdxSlice (a, b, st) ->
          let step = match st with
                     | Some s -> s
                     | None -> Zpos XH in
          if Z.eqb step Z0
          then Err ValueError
          else if Z.ltb step Z0
               then Err Unsupported
               else Ok (mk_index (py_slice fi.fi_data a b step) fi.fi_t0))

type msg = { m_off : z; m_size : z; m_type0 : z; m_src0 : z;
             m_time0 : z option }

type file = { f_msgs : msg list; f_size : z }

(** val entry_of : z -> msg -> entry0 **)

let entry_of i m =
  { e_time =
    (match m.m_time0 with
     | Some t -> Some (Z.div t (Zpos (XO (XO (XO XH)))))
     | None -> None); e_type = m.m_type0; e_off = m.m_off; e_idx = i }

(** val entries_from : z -> msg list -> entry0 list **)

let rec entries_from i = function
| [] -> []
| m :: t -> (entry_of i m) :: (entries_from (Z.add i (Zpos XH)) t)

(** val index_limit : file -> z option -> z option **)

let index_limit f = function
| Some mb ->
  if Z.eqb mb Z0
  then None
  else if Z.ltb mb f.f_size
       then Some
              (Z.mul (Z.opp (Z.div (Z.opp mb) read_size_bytes))
                read_size_bytes)
       else None
| None -> None

(** val below : z option -> z -> bool **)

let below lim x =
  match lim with
  | Some l -> Z.ltb x l
  | None -> true

(** val index_of_file : file -> z option -> findex **)

let index_of_file f max_bytes =
  mk_index
    (filter (fun e -> below (index_limit f max_bytes) e.e_off)
      (entries_from Z0 f.f_msgs)) None

(** val xconv :
    (msg -> bool) -> (msg -> bool) -> (msg -> bool) -> z -> msg -> dLmsg **)

let xconv p1 sy dec i m =
  { m_ord = (Z.to_N i); m_type = (Z.to_N m.m_type0); m_src =
    (Z.to_N m.m_src0); m_time = m.m_time0; m_p1_some = (p1 m); m_sys_some =
    (sy m); m_decodes = (dec m) }

(** val xconvs_from :
    (msg -> bool) -> (msg -> bool) -> (msg -> bool) -> z -> msg list -> dLmsg
    list **)

let rec xconvs_from p1 sy dec i = function
| [] -> []
| m :: t ->
  (xconv p1 sy dec i m) :: (xconvs_from p1 sy dec (Z.add i (Zpos XH)) t)

(** val xtr_link : trange -> trange0 **)

let xtr_link tr =
  { tr_start0 = tr.tr_start; tr_end0 = tr.tr_end; tr_abs0 = tr.tr_abs;
    tr_t0 = None }

(** val xsel_range : file -> trange -> entry0 list **)

let xsel_range f tr =
  match getitem fixed (index_of_file f None) (KTimeRange (xtr_link tr)) with
  | Ok i -> i.fi_data
  | Err _ -> []

(** val xby_entries : entry0 list -> dLmsg list -> dLmsg list **)

let xby_entries s l =
  filter (fun d -> memZ0 (Z.of_N d.m_ord) (map (fun e -> e.e_idx) s)) l

(** val linked_env :
    (msg -> bool) -> (msg -> bool) -> (msg -> bool) -> (n -> n list option ->
    (n * data) list -> (n * data) list) -> file -> n list -> env **)

let linked_env p1 sy dec al f avail =
  { e_log = (xconvs_from p1 sy dec Z0 f.f_msgs); e_avail = avail; e_tfilter =
    (fun tr l -> xby_entries (xsel_range f tr) l); e_nonnan =
    (filter (fun d -> is_some d.m_time)); e_align = al }

(** val runner_env : file -> n list -> env **)

let runner_env f avail =
  linked_env (fun m -> memZ0 m.m_type0 (map Z.of_N p1_types)) (fun m ->
    memZ0 m.m_type0 (map Z.of_N sys_types)) (fun _ -> true) align_impl f avail
