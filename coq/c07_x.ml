
(** val negb : bool -> bool **)

let negb = function
| true -> false
| false -> true

type nat =
| O
| S of nat

(** val fst : ('a1 * 'a2) -> 'a1 **)

let fst = function
| (x, _) -> x

(** val snd : ('a1 * 'a2) -> 'a2 **)

let snd = function
| (_, y) -> y

(** val length : 'a1 list -> nat **)

let rec length = function
| [] -> O
| _ :: l' -> S (length l')

(** val app : 'a1 list -> 'a1 list -> 'a1 list **)

let rec app l m =
  match l with
  | [] -> m
  | a :: l1 -> a :: (app l1 m)

type comparison =
| Eq
| Lt
| Gt

(** val compOpp : comparison -> comparison **)

let compOpp = function
| Eq -> Eq
| Lt -> Gt
| Gt -> Lt

module Coq__1 = struct
 (** val add : nat -> nat -> nat **)
 let rec add n0 m =
   match n0 with
   | O -> m
   | S p -> S (add p m)
end
include Coq__1

(** val sub : nat -> nat -> nat **)

let rec sub n0 m =
  match n0 with
  | O -> n0
  | S k -> (match m with
            | O -> n0
            | S l -> sub k l)

type positive =
| XI of positive
| XO of positive
| XH

type n =
| N0
| Npos of positive

type z =
| Z0
| Zpos of positive
| Zneg of positive

module Nat =
 struct
  (** val leb : nat -> nat -> bool **)

  let rec leb n0 m =
    match n0 with
    | O -> true
    | S n' -> (match m with
               | O -> false
               | S m' -> leb n' m')

  (** val ltb : nat -> nat -> bool **)

  let ltb n0 m =
    leb (S n0) m
 end

module Pos =
 struct
  type mask =
  | IsNul
  | IsPos of positive
  | IsNeg
 end

module Coq_Pos =
 struct
  (** val succ : positive -> positive **)

  let rec succ = function
  | XI p -> XO (succ p)
  | XO p -> XI p
  | XH -> XO XH

  (** val add : positive -> positive -> positive **)

  let rec add x y =
    match x with
    | XI p ->
      (match y with
       | XI q -> XO (add_carry p q)
       | XO q -> XI (add p q)
       | XH -> XO (succ p))
    | XO p ->
      (match y with
       | XI q -> XI (add p q)
       | XO q -> XO (add p q)
       | XH -> XI p)
    | XH -> (match y with
             | XI q -> XO (succ q)
             | XO q -> XI q
             | XH -> XO XH)

  (** val add_carry : positive -> positive -> positive **)

  and add_carry x y =
    match x with
    | XI p ->
      (match y with
       | XI q -> XI (add_carry p q)
       | XO q -> XO (add_carry p q)
       | XH -> XI (succ p))
    | XO p ->
      (match y with
       | XI q -> XO (add_carry p q)
       | XO q -> XI (add p q)
       | XH -> XO (succ p))
    | XH ->
      (match y with
       | XI q -> XI (succ q)
       | XO q -> XO (succ q)
       | XH -> XI XH)

  (** val pred_double : positive -> positive **)

  let rec pred_double = function
  | XI p -> XI (XO p)
  | XO p -> XI (pred_double p)
  | XH -> XH

  (** val pred_N : positive -> n **)

  let pred_N = function
  | XI p -> Npos (XO p)
  | XO p -> Npos (pred_double p)
  | XH -> N0

  type mask = Pos.mask =
  | IsNul
  | IsPos of positive
  | IsNeg

  (** val succ_double_mask : mask -> mask **)

  let succ_double_mask = function
  | IsNul -> IsPos XH
  | IsPos p -> IsPos (XI p)
  | IsNeg -> IsNeg

  (** val double_mask : mask -> mask **)

  let double_mask = function
  | IsPos p -> IsPos (XO p)
  | x0 -> x0

  (** val double_pred_mask : positive -> mask **)

  let double_pred_mask = function
  | XI p -> IsPos (XO (XO p))
  | XO p -> IsPos (XO (pred_double p))
  | XH -> IsNul

  (** val sub_mask : positive -> positive -> mask **)

  let rec sub_mask x y =
    match x with
    | XI p ->
      (match y with
       | XI q -> double_mask (sub_mask p q)
       | XO q -> succ_double_mask (sub_mask p q)
       | XH -> IsPos (XO p))
    | XO p ->
      (match y with
       | XI q -> succ_double_mask (sub_mask_carry p q)
       | XO q -> double_mask (sub_mask p q)
       | XH -> IsPos (pred_double p))
    | XH -> (match y with
             | XH -> IsNul
             | _ -> IsNeg)

  (** val sub_mask_carry : positive -> positive -> mask **)

  and sub_mask_carry x y =
    match x with
    | XI p ->
      (match y with
       | XI q -> succ_double_mask (sub_mask_carry p q)
       | XO q -> double_mask (sub_mask p q)
       | XH -> IsPos (pred_double p))
    | XO p ->
      (match y with
       | XI q -> double_mask (sub_mask_carry p q)
       | XO q -> succ_double_mask (sub_mask_carry p q)
       | XH -> double_pred_mask p)
    | XH -> IsNeg

  (** val mul : positive -> positive -> positive **)

  let rec mul x y =
    match x with
    | XI p -> add y (XO (mul p y))
    | XO p -> XO (mul p y)
    | XH -> y

  (** val iter : ('a1 -> 'a1) -> 'a1 -> positive -> 'a1 **)

  let rec iter f x = function
  | XI n' -> f (iter f (iter f x n') n')
  | XO n' -> iter f (iter f x n') n'
  | XH -> f x

  (** val compare_cont : comparison -> positive -> positive -> comparison **)

  let rec compare_cont r x y =
    match x with
    | XI p ->
      (match y with
       | XI q -> compare_cont r p q
       | XO q -> compare_cont Gt p q
       | XH -> Gt)
    | XO p ->
      (match y with
       | XI q -> compare_cont Lt p q
       | XO q -> compare_cont r p q
       | XH -> Gt)
    | XH -> (match y with
             | XH -> r
             | _ -> Lt)

  (** val compare : positive -> positive -> comparison **)

  let compare =
    compare_cont Eq

  (** val eqb : positive -> positive -> bool **)

  let rec eqb p q =
    match p with
    | XI p0 -> (match q with
                | XI q0 -> eqb p0 q0
                | _ -> false)
    | XO p0 -> (match q with
                | XO q0 -> eqb p0 q0
                | _ -> false)
    | XH -> (match q with
             | XH -> true
             | _ -> false)

  (** val coq_Nsucc_double : n -> n **)

  let coq_Nsucc_double = function
  | N0 -> Npos XH
  | Npos p -> Npos (XI p)

  (** val coq_Ndouble : n -> n **)

  let coq_Ndouble = function
  | N0 -> N0
  | Npos p -> Npos (XO p)

  (** val coq_land : positive -> positive -> n **)

  let rec coq_land p q =
    match p with
    | XI p0 ->
      (match q with
       | XI q0 -> coq_Nsucc_double (coq_land p0 q0)
       | XO q0 -> coq_Ndouble (coq_land p0 q0)
       | XH -> Npos XH)
    | XO p0 ->
      (match q with
       | XI q0 -> coq_Ndouble (coq_land p0 q0)
       | XO q0 -> coq_Ndouble (coq_land p0 q0)
       | XH -> N0)
    | XH -> (match q with
             | XO _ -> N0
             | _ -> Npos XH)

  (** val coq_lxor : positive -> positive -> n **)

  let rec coq_lxor p q =
    match p with
    | XI p0 ->
      (match q with
       | XI q0 -> coq_Ndouble (coq_lxor p0 q0)
       | XO q0 -> coq_Nsucc_double (coq_lxor p0 q0)
       | XH -> Npos (XO p0))
    | XO p0 ->
      (match q with
       | XI q0 -> coq_Nsucc_double (coq_lxor p0 q0)
       | XO q0 -> coq_Ndouble (coq_lxor p0 q0)
       | XH -> Npos (XI p0))
    | XH ->
      (match q with
       | XI q0 -> Npos (XO q0)
       | XO q0 -> Npos (XI q0)
       | XH -> N0)

  (** val testbit : positive -> n -> bool **)

  let rec testbit p n0 =
    match p with
    | XI p0 -> (match n0 with
                | N0 -> true
                | Npos n1 -> testbit p0 (pred_N n1))
    | XO p0 -> (match n0 with
                | N0 -> false
                | Npos n1 -> testbit p0 (pred_N n1))
    | XH -> (match n0 with
             | N0 -> true
             | Npos _ -> false)

  (** val iter_op : ('a1 -> 'a1 -> 'a1) -> positive -> 'a1 -> 'a1 **)

  let rec iter_op op0 p a =
    match p with
    | XI p0 -> op0 a (iter_op op0 p0 (op0 a a))
    | XO p0 -> iter_op op0 p0 (op0 a a)
    | XH -> a

  (** val to_nat : positive -> nat **)

  let to_nat x =
    iter_op Coq__1.add x (S O)

  (** val of_succ_nat : nat -> positive **)

  let rec of_succ_nat = function
  | O -> XH
  | S x -> succ (of_succ_nat x)
 end

module N =
 struct
  (** val succ_double : n -> n **)

  let succ_double = function
  | N0 -> Npos XH
  | Npos p -> Npos (XI p)

  (** val double : n -> n **)

  let double = function
  | N0 -> N0
  | Npos p -> Npos (XO p)

  (** val add : n -> n -> n **)

  let add n0 m =
    match n0 with
    | N0 -> m
    | Npos p -> (match m with
                 | N0 -> n0
                 | Npos q -> Npos (Coq_Pos.add p q))

  (** val sub : n -> n -> n **)

  let sub n0 m =
    match n0 with
    | N0 -> N0
    | Npos n' ->
      (match m with
       | N0 -> n0
       | Npos m' ->
         (match Coq_Pos.sub_mask n' m' with
          | Coq_Pos.IsPos p -> Npos p
          | _ -> N0))

  (** val mul : n -> n -> n **)

  let mul n0 m =
    match n0 with
    | N0 -> N0
    | Npos p -> (match m with
                 | N0 -> N0
                 | Npos q -> Npos (Coq_Pos.mul p q))

  (** val compare : n -> n -> comparison **)

  let compare n0 m =
    match n0 with
    | N0 -> (match m with
             | N0 -> Eq
             | Npos _ -> Lt)
    | Npos n' -> (match m with
                  | N0 -> Gt
                  | Npos m' -> Coq_Pos.compare n' m')

  (** val eqb : n -> n -> bool **)

  let eqb n0 m =
    match n0 with
    | N0 -> (match m with
             | N0 -> true
             | Npos _ -> false)
    | Npos p -> (match m with
                 | N0 -> false
                 | Npos q -> Coq_Pos.eqb p q)

  (** val leb : n -> n -> bool **)

  let leb x y =
    match compare x y with
    | Gt -> false
    | _ -> true

  (** val ltb : n -> n -> bool **)

  let ltb x y =
    match compare x y with
    | Lt -> true
    | _ -> false

  (** val min : n -> n -> n **)

  let min n0 n' =
    match compare n0 n' with
    | Gt -> n'
    | _ -> n0

  (** val div2 : n -> n **)

  let div2 = function
  | N0 -> N0
  | Npos p0 -> (match p0 with
                | XI p -> Npos p
                | XO p -> Npos p
                | XH -> N0)

  (** val pos_div_eucl : positive -> n -> n * n **)

  let rec pos_div_eucl a b =
    match a with
    | XI a' ->
      let (q, r) = pos_div_eucl a' b in
      let r' = succ_double r in
      if leb b r' then ((succ_double q), (sub r' b)) else ((double q), r')
    | XO a' ->
      let (q, r) = pos_div_eucl a' b in
      let r' = double r in
      if leb b r' then ((succ_double q), (sub r' b)) else ((double q), r')
    | XH ->
      (match b with
       | N0 -> (N0, (Npos XH))
       | Npos p -> (match p with
                    | XH -> ((Npos XH), N0)
                    | _ -> (N0, (Npos XH))))

  (** val div_eucl : n -> n -> n * n **)

  let div_eucl a b =
    match a with
    | N0 -> (N0, N0)
    | Npos na -> (match b with
                  | N0 -> (N0, a)
                  | Npos _ -> pos_div_eucl na b)

  (** val modulo : n -> n -> n **)

  let modulo a b =
    snd (div_eucl a b)

  (** val coq_land : n -> n -> n **)

  let coq_land n0 m =
    match n0 with
    | N0 -> N0
    | Npos p -> (match m with
                 | N0 -> N0
                 | Npos q -> Coq_Pos.coq_land p q)

  (** val coq_lxor : n -> n -> n **)

  let coq_lxor n0 m =
    match n0 with
    | N0 -> m
    | Npos p -> (match m with
                 | N0 -> n0
                 | Npos q -> Coq_Pos.coq_lxor p q)

  (** val shiftr : n -> n -> n **)

  let shiftr a = function
  | N0 -> a
  | Npos p -> Coq_Pos.iter div2 a p

  (** val testbit : n -> n -> bool **)

  let testbit a n0 =
    match a with
    | N0 -> false
    | Npos p -> Coq_Pos.testbit p n0

  (** val to_nat : n -> nat **)

  let to_nat = function
  | N0 -> O
  | Npos p -> Coq_Pos.to_nat p

  (** val of_nat : nat -> n **)

  let of_nat = function
  | O -> N0
  | S n' -> Npos (Coq_Pos.of_succ_nat n')
 end

(** val tl : 'a1 list -> 'a1 list **)

let tl = function
| [] -> []
| _ :: m -> m

(** val nth : nat -> 'a1 list -> 'a1 -> 'a1 **)

let rec nth n0 l default =
  match n0 with
  | O -> (match l with
          | [] -> default
          | x :: _ -> x)
  | S m -> (match l with
            | [] -> default
            | _ :: t -> nth m t default)

(** val nth_error : 'a1 list -> nat -> 'a1 option **)

let rec nth_error l = function
| O -> (match l with
        | [] -> None
        | x :: _ -> Some x)
| S n1 -> (match l with
           | [] -> None
           | _ :: l0 -> nth_error l0 n1)

(** val map : ('a1 -> 'a2) -> 'a1 list -> 'a2 list **)

let rec map f = function
| [] -> []
| a :: t -> (f a) :: (map f t)

(** val fold_left : ('a1 -> 'a2 -> 'a1) -> 'a2 list -> 'a1 -> 'a1 **)

let rec fold_left f l a0 =
  match l with
  | [] -> a0
  | b :: t -> fold_left f t (f a0 b)

(** val fold_right : ('a2 -> 'a1 -> 'a1) -> 'a1 -> 'a2 list -> 'a1 **)

let rec fold_right f a0 = function
| [] -> a0
| b :: t -> f b (fold_right f a0 t)

(** val firstn : nat -> 'a1 list -> 'a1 list **)

let rec firstn n0 l =
  match n0 with
  | O -> []
  | S n1 -> (match l with
             | [] -> []
             | a :: l0 -> a :: (firstn n1 l0))

(** val skipn : nat -> 'a1 list -> 'a1 list **)

let rec skipn n0 l =
  match n0 with
  | O -> l
  | S n1 -> (match l with
             | [] -> []
             | _ :: l0 -> skipn n1 l0)

(** val seq : nat -> nat -> nat list **)

let rec seq start = function
| O -> []
| S len0 -> start :: (seq (S start) len0)

module Z =
 struct
  (** val double : z -> z **)

  let double = function
  | Z0 -> Z0
  | Zpos p -> Zpos (XO p)
  | Zneg p -> Zneg (XO p)

  (** val succ_double : z -> z **)

  let succ_double = function
  | Z0 -> Zpos XH
  | Zpos p -> Zpos (XI p)
  | Zneg p -> Zneg (Coq_Pos.pred_double p)

  (** val pred_double : z -> z **)

  let pred_double = function
  | Z0 -> Zneg XH
  | Zpos p -> Zpos (Coq_Pos.pred_double p)
  | Zneg p -> Zneg (XI p)

  (** val pos_sub : positive -> positive -> z **)

  let rec pos_sub x y =
    match x with
    | XI p ->
      (match y with
       | XI q -> double (pos_sub p q)
       | XO q -> succ_double (pos_sub p q)
       | XH -> Zpos (XO p))
    | XO p ->
      (match y with
       | XI q -> pred_double (pos_sub p q)
       | XO q -> double (pos_sub p q)
       | XH -> Zpos (Coq_Pos.pred_double p))
    | XH ->
      (match y with
       | XI q -> Zneg (XO q)
       | XO q -> Zneg (Coq_Pos.pred_double q)
       | XH -> Z0)

  (** val add : z -> z -> z **)

  let add x y =
    match x with
    | Z0 -> y
    | Zpos x' ->
      (match y with
       | Z0 -> x
       | Zpos y' -> Zpos (Coq_Pos.add x' y')
       | Zneg y' -> pos_sub x' y')
    | Zneg x' ->
      (match y with
       | Z0 -> x
       | Zpos y' -> pos_sub y' x'
       | Zneg y' -> Zneg (Coq_Pos.add x' y'))

  (** val opp : z -> z **)

  let opp = function
  | Z0 -> Z0
  | Zpos x0 -> Zneg x0
  | Zneg x0 -> Zpos x0

  (** val sub : z -> z -> z **)

  let sub m n0 =
    add m (opp n0)

  (** val compare : z -> z -> comparison **)

  let compare x y =
    match x with
    | Z0 -> (match y with
             | Z0 -> Eq
             | Zpos _ -> Lt
             | Zneg _ -> Gt)
    | Zpos x' -> (match y with
                  | Zpos y' -> Coq_Pos.compare x' y'
                  | _ -> Gt)
    | Zneg x' ->
      (match y with
       | Zneg y' -> compOpp (Coq_Pos.compare x' y')
       | _ -> Lt)

  (** val ltb : z -> z -> bool **)

  let ltb x y =
    match compare x y with
    | Lt -> true
    | _ -> false

  (** val eqb : z -> z -> bool **)

  let eqb x y =
    match x with
    | Z0 -> (match y with
             | Z0 -> true
             | _ -> false)
    | Zpos p -> (match y with
                 | Zpos q -> Coq_Pos.eqb p q
                 | _ -> false)
    | Zneg p -> (match y with
                 | Zneg q -> Coq_Pos.eqb p q
                 | _ -> false)

  (** val to_N : z -> n **)

  let to_N = function
  | Zpos p -> Npos p
  | _ -> N0

  (** val of_N : n -> z **)

  let of_N = function
  | N0 -> Z0
  | Npos p -> Zpos p
 end

(** val crc_poly : n **)

let crc_poly =
  Npos (XO (XO (XO (XO (XO (XI (XO (XO (XI (XI (XO (XO (XO (XO (XO (XI (XO
    (XO (XO (XI (XI (XI (XO (XI (XI (XO (XI (XI (XO (XI (XI
    XH)))))))))))))))))))))))))))))))

(** val crc_xor : n **)

let crc_xor =
  Npos (XI (XI (XI (XI (XI (XI (XI (XI (XI (XI (XI (XI (XI (XI (XI (XI (XI
    (XI (XI (XI (XI (XI (XI (XI (XI (XI (XI (XI (XI (XI (XI
    XH)))))))))))))))))))))))))))))))

(** val sYNC0 : n **)

let sYNC0 =
  Npos (XO (XI (XI (XI (XO XH)))))

(** val sYNC1 : n **)

let sYNC1 =
  Npos (XI (XO (XO (XO (XI XH)))))

(** val cPP_SYNC0 : n **)

let cPP_SYNC0 =
  Npos (XO (XI (XI (XI (XO XH)))))

(** val cPP_SYNC1 : n **)

let cPP_SYNC1 =
  Npos (XI (XO (XO (XO (XI XH)))))

(** val hEADER_SIZE : nat **)

let hEADER_SIZE =
  S (S (S (S (S (S (S (S (S (S (S (S (S (S (S (S (S (S (S (S (S (S (S (S
    O)))))))))))))))))))))))

(** val step_bit : n -> n **)

let step_bit c =
  if N.testbit c N0
  then N.coq_lxor crc_poly (N.shiftr c (Npos XH))
  else N.shiftr c (Npos XH)

(** val step8 : n -> n **)

let step8 c =
  step_bit
    (step_bit
      (step_bit (step_bit (step_bit (step_bit (step_bit (step_bit c)))))))

(** val range256 : n list **)

let range256 =
  map N.of_nat
    (seq O (S (S (S (S (S (S (S (S (S (S (S (S (S (S (S (S (S (S (S (S (S (S
      (S (S (S (S (S (S (S (S (S (S (S (S (S (S (S (S (S (S (S (S (S (S (S (S
      (S (S (S (S (S (S (S (S (S (S (S (S (S (S (S (S (S (S (S (S (S (S (S (S
      (S (S (S (S (S (S (S (S (S (S (S (S (S (S (S (S (S (S (S (S (S (S (S (S
      (S (S (S (S (S (S (S (S (S (S (S (S (S (S (S (S (S (S (S (S (S (S (S (S
      (S (S (S (S (S (S (S (S (S (S (S (S (S (S (S (S (S (S (S (S (S (S (S (S
      (S (S (S (S (S (S (S (S (S (S (S (S (S (S (S (S (S (S (S (S (S (S (S (S
      (S (S (S (S (S (S (S (S (S (S (S (S (S (S (S (S (S (S (S (S (S (S (S (S
      (S (S (S (S (S (S (S (S (S (S (S (S (S (S (S (S (S (S (S (S (S (S (S (S
      (S (S (S (S (S (S (S (S (S (S (S (S (S (S (S (S (S (S (S (S (S (S (S (S
      (S (S (S (S (S (S (S (S (S (S (S (S (S (S (S (S (S (S
      O)))))))))))))))))))))))))))))))))))))))))))))))))))))))))))))))))))))))))))))))))))))))))))))))))))))))))))))))))))))))))))))))))))))))))))))))))))))))))))))))))))))))))))))))))))))))))))))))))))))))))))))))))))))))))))))))))))))))))))))))))))))))))))))))))

(** val crc_table : n list **)

let crc_table =
  map step8 range256

(** val table_lookup : n -> n **)

let table_lookup i =
  nth (N.to_nat i) crc_table N0

(** val upd_table : n -> n -> n **)

let upd_table c b =
  N.coq_lxor
    (table_lookup
      (N.coq_land (N.coq_lxor c b) (Npos (XI (XI (XI (XI (XI (XI (XI
        XH)))))))))) (N.shiftr c (Npos (XO (XO (XO XH)))))

(** val crc_fold : (n -> n -> n) -> n -> n list -> n **)

let crc_fold upd0 c l =
  fold_left upd0 l c

(** val crc32_from_with : (n -> n -> n) -> n -> n list -> n **)

let crc32_from_with upd0 init l =
  N.coq_lxor (crc_fold upd0 (N.coq_lxor init crc_xor) l) crc_xor

(** val crc32_from : n -> n list -> n **)

let crc32_from =
  crc32_from_with upd_table

(** val crc32 : n list -> n **)

let crc32 l =
  crc32_from N0 l

type 'a outcome =
| Ok of 'a
| OobRead of n * n
| OobWrite of n * n
| OutOfFuel

(** val bind : 'a1 outcome -> ('a1 -> 'a2 outcome) -> 'a2 outcome **)

let bind o f =
  match o with
  | Ok a -> f a
  | OobRead (i, n0) -> OobRead (i, n0)
  | OobWrite (i, n0) -> OobWrite (i, n0)
  | OutOfFuel -> OutOfFuel

(** val u32 : n -> n **)

let u32 x =
  N.modulo x (Npos (XO (XO (XO (XO (XO (XO (XO (XO (XO (XO (XO (XO (XO (XO
    (XO (XO (XO (XO (XO (XO (XO (XO (XO (XO (XO (XO (XO (XO (XO (XO (XO (XO
    XH)))))))))))))))))))))))))))))))))

(** val blen : n list -> n **)

let blen buf =
  N.of_nat (length buf)

(** val rd : n list -> n -> n outcome **)

let rd buf i =
  match nth_error buf (N.to_nat i) with
  | Some v -> Ok v
  | None -> OobRead (i, (blen buf))

(** val upd : n list -> nat -> n -> n list option **)

let rec upd buf i v =
  match buf with
  | [] -> None
  | h :: t ->
    (match i with
     | O -> Some (v :: t)
     | S k -> (match upd t k v with
               | Some t' -> Some (h :: t')
               | None -> None))

(** val wr : n list -> n -> n -> n list outcome **)

let wr buf i v =
  match upd buf (N.to_nat i) v with
  | Some b -> Ok b
  | None -> OobWrite (i, (blen buf))

(** val rd_range : n list -> n -> n -> n list outcome **)

let rd_range buf a n0 =
  if N.leb (N.add a n0) (blen buf)
  then Ok (firstn (N.to_nat n0) (skipn (N.to_nat a) buf))
  else OobRead ((N.sub (N.add a n0) (Npos XH)), (blen buf))

(** val memmove0 : n list -> n -> n -> n list outcome **)

let memmove0 buf off n0 =
  if N.leb (N.add off n0) (blen buf)
  then Ok
         (app (firstn (N.to_nat n0) (skipn (N.to_nat off) buf))
           (skipn (N.to_nat n0) buf))
  else OobRead ((N.sub (N.add off n0) (Npos XH)), (blen buf))

type event = n * n list

type ('st, 'x) core = { c_buf : n list; c_cap : n; c_state : 'st; c_next : 
                        n; c_size : n; c_x : 'x }

(** val set_buf : ('a1, 'a2) core -> n list -> ('a1, 'a2) core **)

let set_buf c b =
  { c_buf = b; c_cap = c.c_cap; c_state = c.c_state; c_next = c.c_next;
    c_size = c.c_size; c_x = c.c_x }

(** val set_state : ('a1, 'a2) core -> 'a1 -> ('a1, 'a2) core **)

let set_state c s =
  { c_buf = c.c_buf; c_cap = c.c_cap; c_state = s; c_next = c.c_next;
    c_size = c.c_size; c_x = c.c_x }

(** val set_next : ('a1, 'a2) core -> n -> ('a1, 'a2) core **)

let set_next c n0 =
  { c_buf = c.c_buf; c_cap = c.c_cap; c_state = c.c_state; c_next = n0;
    c_size = c.c_size; c_x = c.c_x }

(** val set_size : ('a1, 'a2) core -> n -> ('a1, 'a2) core **)

let set_size c n0 =
  { c_buf = c.c_buf; c_cap = c.c_cap; c_state = c.c_state; c_next = c.c_next;
    c_size = n0; c_x = c.c_x }

(** val set_x : ('a1, 'a2) core -> 'a2 -> ('a1, 'a2) core **)

let set_x c x =
  { c_buf = c.c_buf; c_cap = c.c_cap; c_state = c.c_state; c_next = c.c_next;
    c_size = c.c_size; c_x = x }

type ('st, 'x) framer = { f_has : bool; f_managed : bool;
                          f_core : ('st, 'x) core }

(** val reset_core :
    'a1 -> ('a2 -> 'a2) -> ('a1, 'a2) core -> ('a1, 'a2) core **)

let reset_core sync_st reset_x c =
  set_x (set_size (set_next (set_state c sync_st) N0) N0) (reset_x c.c_x)

(** val reset :
    'a1 -> ('a2 -> 'a2) -> ('a1, 'a2) framer -> ('a1, 'a2) framer **)

let reset sync_st reset_x f =
  { f_has = f.f_has; f_managed = f.f_managed; f_core =
    (reset_core sync_st reset_x f.f_core) }

(** val set_buffer :
    'a1 -> ('a2 -> 'a2) -> n -> bool -> n -> n -> ('a1, 'a2) framer -> n
    option -> n -> n -> n list -> ('a1, 'a2) framer **)

let set_buffer sync_st reset_x min_cap recheck clamp align_mask f user alloc_addr capacity mem =
  if N.ltb capacity min_cap
  then f
  else let capacity0 = if N.ltb clamp capacity then clamp else capacity in
       let cleared = (&&) f.f_managed f.f_has in
       let managed = if cleared then false else f.f_managed in
       let addr = match user with
                  | Some a -> a
                  | None -> alloc_addr in
       let managed0 = match user with
                      | Some _ -> managed
                      | None -> true in
       let aligned =
         N.sub (N.add addr align_mask)
           (N.modulo (N.add addr align_mask) (N.add align_mask (Npos XH)))
       in
       let shift = N.sub aligned addr in
       let cap_bytes = u32 (N.sub capacity0 shift) in
       let c = f.f_core in
       if (&&) recheck (N.ltb cap_bytes min_cap)
       then { f_has = false; f_managed = false; f_core =
              (reset_core sync_st reset_x { c_buf = []; c_cap = N0; c_state =
                c.c_state; c_next = c.c_next; c_size = c.c_size; c_x =
                c.c_x }) }
       else let buf = firstn (N.to_nat cap_bytes) (skipn (N.to_nat shift) mem)
            in
            { f_has = true; f_managed = managed0; f_core =
            (reset_core sync_st reset_x { c_buf = buf; c_cap = cap_bytes;
              c_state = c.c_state; c_next = c.c_next; c_size = c.c_size;
              c_x = c.c_x }) }

type ('st, 'x) lstate = { l_c : ('st, 'x) core; l_off : n; l_avail : 
                          n; l_total : n; l_evs : event list }

(** val resync_body :
    ('a1 -> bool) -> n -> bool -> (bool -> ('a1, 'a2) core -> ((('a1, 'a2)
    core * z) * event list) outcome) -> ('a1, 'a2) lstate -> ('a1, 'a2)
    lstate outcome **)

let resync_body is_sync sync_byte skip_dup on_byte s =
  let c = s.l_c in
  let offset = s.l_off in
  let avail = s.l_avail in
  bind (rd c.c_buf offset) (fun current_byte ->
    bind
      (if is_sync c.c_state
       then if N.eqb current_byte sync_byte
            then bind
                   (if (&&) skip_dup (N.ltb (N.add offset (Npos XH)) avail)
                    then bind (rd c.c_buf (N.add offset (Npos XH)))
                           (fun nb -> Ok (N.eqb nb sync_byte))
                    else Ok false) (fun dup ->
                   if dup
                   then Ok None
                   else let avail' = u32 (N.sub avail offset) in
                        bind (memmove0 c.c_buf offset avail') (fun buf' -> Ok
                          (Some (((set_buf c buf'), N0), avail'))))
            else Ok None
       else Ok (Some ((c, offset), avail))) (fun pre ->
      match pre with
      | Some p ->
        let (p0, avail0) = p in
        let (c0, offset0) = p0 in
        bind (on_byte true (set_next c0 (u32 (N.add offset0 (Npos XH)))))
          (fun r ->
          let (p1, evs) = r in
          let (c1, message_size) = p1 in
          if is_sync c1.c_state
          then let total =
                 if Z.ltb Z0 message_size
                 then u32 (N.add s.l_total (Z.to_N message_size))
                 else s.l_total
               in
               let offset1 =
                 if Z.ltb Z0 message_size
                 then u32 (N.sub (Z.to_N message_size) (Npos XH))
                 else N0
               in
               Ok { l_c = (set_next c1 N0); l_off =
               (u32 (N.add offset1 (Npos XH))); l_avail = avail0; l_total =
               total; l_evs = (app s.l_evs evs) }
          else Ok { l_c = c1; l_off = (u32 (N.add offset0 (Npos XH)));
                 l_avail = avail0; l_total = s.l_total; l_evs =
                 (app s.l_evs evs) })
      | None ->
        Ok { l_c = c; l_off = (u32 (N.add offset (Npos XH))); l_avail =
          avail; l_total = s.l_total; l_evs = s.l_evs }))

(** val resync_inner :
    ('a1 -> bool) -> n -> bool -> (bool -> ('a1, 'a2) core -> ((('a1, 'a2)
    core * z) * event list) outcome) -> nat -> ('a1, 'a2) lstate -> (('a1,
    'a2) lstate * bool) outcome **)

let rec resync_inner is_sync sync_byte skip_dup on_byte fb s =
  match fb with
  | O -> Ok (s, false)
  | S fb' ->
    if N.ltb s.l_off s.l_avail
    then bind (resync_body is_sync sync_byte skip_dup on_byte s) (fun s' ->
           resync_inner is_sync sync_byte skip_dup on_byte fb' s')
    else Ok (s, true)

(** val resync_outer :
    ('a1 -> bool) -> n -> bool -> (bool -> ('a1, 'a2) core -> ((('a1, 'a2)
    core * z) * event list) outcome) -> nat -> nat -> ('a1, 'a2) lstate ->
    ('a1, 'a2) lstate outcome **)

let rec resync_outer is_sync sync_byte skip_dup on_byte fa fb s =
  match fa with
  | O -> OutOfFuel
  | S fa' ->
    bind (resync_inner is_sync sync_byte skip_dup on_byte fb s) (fun r ->
      let (s', fin) = r in
      if fin
      then Ok s'
      else resync_outer is_sync sync_byte skip_dup on_byte fa' fb s')

(** val resync_fuel : n -> nat **)

let resync_fuel avail =
  S (S (N.to_nat avail))

(** val resync :
    'a1 -> ('a1 -> bool) -> n -> bool -> (bool -> ('a1, 'a2) core -> ((('a1,
    'a2) core * z) * event list) outcome) -> ('a1, 'a2) core -> ((('a1, 'a2)
    core * n) * event list) outcome **)

let resync sync_st is_sync sync_byte skip_dup on_byte c =
  let available_bytes = c.c_next in
  let c0 = set_next (set_state c sync_st) N0 in
  bind
    (resync_outer is_sync sync_byte skip_dup on_byte
      (resync_fuel available_bytes) (resync_fuel available_bytes) { l_c = c0;
      l_off = (Npos XH); l_avail = available_bytes; l_total = N0; l_evs =
      [] }) (fun s -> Ok ((s.l_c, s.l_total), s.l_evs))

(** val on_data_loop :
    'a1 -> ('a1 -> bool) -> n -> bool -> (bool -> ('a1, 'a2) core -> ((('a1,
    'a2) core * z) * event list) outcome) -> ('a1, 'a2) core -> n list -> n
    -> event list -> ((('a1, 'a2) core * n) * event list) outcome **)

let rec on_data_loop sync_st is_sync sync_byte skip_dup on_byte c data total evs =
  match data with
  | [] -> Ok ((c, total), evs)
  | byte :: rest ->
    bind (wr c.c_buf c.c_next byte) (fun buf' ->
      let c0 = set_next (set_buf c buf') (u32 (N.add c.c_next (Npos XH))) in
      bind (on_byte false c0) (fun r ->
        let (p, e) = r in
        let (c1, dispatched) = p in
        if Z.eqb dispatched Z0
        then on_data_loop sync_st is_sync sync_byte skip_dup on_byte c1 rest
               total (app evs e)
        else if Z.ltb Z0 dispatched
             then on_data_loop sync_st is_sync sync_byte skip_dup on_byte
                    (set_next c1 N0) rest (N.add total (Z.to_N dispatched))
                    (app evs e)
             else if N.ltb N0 c1.c_next
                  then bind
                         (resync sync_st is_sync sync_byte skip_dup on_byte
                           c1) (fun r2 ->
                         let (p0, e2) = r2 in
                         let (c2, t) = p0 in
                         on_data_loop sync_st is_sync sync_byte skip_dup
                           on_byte c2 rest (N.add total t)
                           (app evs (app e e2)))
                  else on_data_loop sync_st is_sync sync_byte skip_dup
                         on_byte c1 rest total (app evs e)))

(** val on_data :
    'a1 -> ('a1 -> bool) -> n -> bool -> (bool -> ('a1, 'a2) core -> ((('a1,
    'a2) core * z) * event list) outcome) -> ('a1, 'a2) framer -> n list ->
    ((('a1, 'a2) framer * n) * event list) outcome **)

let on_data sync_st is_sync sync_byte skip_dup on_byte f data =
  if f.f_has
  then bind
         (on_data_loop sync_st is_sync sync_byte skip_dup on_byte f.f_core
           data N0 []) (fun r ->
         let (p, evs) = r in
         let (c, total) = p in
         Ok (({ f_has = f.f_has; f_managed = f.f_managed; f_core = c },
         total), evs))
  else Ok ((f, N0), [])

type verdict =
| Accept of nat
| Reject
| More

type 'b frame = nat * 'b list

type 'b sstate = nat * 'b list

(** val scan_aux :
    ('a1 list -> verdict) -> nat -> nat -> 'a1 list -> 'a1 frame list * 'a1
    sstate **)

let rec scan_aux judge fuel off l =
  match fuel with
  | O -> ([], (off, l))
  | S f ->
    (match judge l with
     | Accept n0 ->
       let (fs, st) = scan_aux judge f (add off n0) (skipn n0 l) in
       (((off, (firstn n0 l)) :: fs), st)
     | Reject -> scan_aux judge f (S off) (tl l)
     | More -> ([], (off, l)))

(** val scan :
    ('a1 list -> verdict) -> nat -> 'a1 list -> 'a1 frame list * 'a1 sstate **)

let scan judge off l =
  scan_aux judge (S (length l)) off l

(** val feed :
    ('a1 list -> verdict) -> 'a1 sstate -> 'a1 list -> 'a1 frame list * 'a1
    sstate **)

let feed judge st chunk =
  scan judge (fst st) (app (snd st) chunk)

type op =
| OpData of n list
| OpReset
| OpSetBuffer of n option * n * n * n list

type spst = { sp_cap : n option; sp_off : nat; sp_res : n list }

(** val spec_init : spst **)

let spec_init =
  { sp_cap = None; sp_off = O; sp_res = [] }

(** val spec_eff_capacity : n -> n -> n option -> n -> n -> n option **)

let spec_eff_capacity min_cap clamp user alloc_addr capacity =
  let capacity0 = N.min capacity clamp in
  let a = match user with
          | Some a -> a
          | None -> alloc_addr in
  let shift =
    N.modulo (N.sub (Npos (XO (XO XH))) (N.modulo a (Npos (XO (XO XH)))))
      (Npos (XO (XO XH)))
  in
  if N.ltb (N.sub capacity0 shift) min_cap
  then None
  else Some (N.sub capacity0 shift)

(** val spec_op :
    (n -> n list -> verdict) -> n -> n -> spst -> op -> spst * (nat * n list)
    list **)

let spec_op judge_of_cap min_cap clamp s = function
| OpData chunk ->
  (match s.sp_cap with
   | Some cap ->
     let (fs, st) = feed (judge_of_cap cap) (s.sp_off, s.sp_res) chunk in
     ({ sp_cap = (Some cap); sp_off = (fst st); sp_res = (snd st) }, fs)
   | None ->
     ({ sp_cap = None; sp_off =
       (add (add s.sp_off (length s.sp_res)) (length chunk)); sp_res = [] },
       []))
| OpReset ->
  ({ sp_cap = s.sp_cap; sp_off = (add s.sp_off (length s.sp_res)); sp_res =
    [] }, [])
| OpSetBuffer (user, alloc_addr, capacity, _) ->
  if N.ltb capacity min_cap
  then (s, [])
  else ({ sp_cap =
         (spec_eff_capacity min_cap clamp user alloc_addr capacity); sp_off =
         (add s.sp_off (length s.sp_res)); sp_res = [] }, [])

(** val frames_total : (nat * n list) list -> n **)

let frames_total fs =
  fold_right (fun f a -> N.add (N.of_nat (length (snd f))) a) N0 fs

(** val fR_CLAMP : n **)

let fR_CLAMP =
  Npos (XI (XI (XI (XI (XI (XI (XI (XI (XI (XI (XI (XI (XI (XI (XI (XI (XI
    (XI (XI (XI (XI (XI (XI (XI (XI (XI (XI (XI (XI (XI
    XH))))))))))))))))))))))))))))))

(** val fR_ALIGN_MASK : n **)

let fR_ALIGN_MASK =
  Npos (XI XH)

(** val fR_MANAGED_EXTRA : n **)

let fR_MANAGED_EXTRA =
  Npos (XI XH)

(** val fR_HEADER_SIZE : n **)

let fR_HEADER_SIZE =
  Npos (XO (XO (XO (XI XH))))

(** val fR_OFF_RESERVED : n **)

let fR_OFF_RESERVED =
  Npos (XO XH)

(** val fR_OFF_CRC : n **)

let fR_OFF_CRC =
  Npos (XO (XO XH))

(** val fR_OFF_CRC_START : n **)

let fR_OFF_CRC_START =
  Npos (XO (XO (XO XH)))

(** val fR_OFF_PSIZE : n **)

let fR_OFF_PSIZE =
  Npos (XO (XO (XO (XO XH))))

(** val le : n list -> n **)

let rec le = function
| [] -> N0
| b :: t ->
  N.add b (N.mul (Npos (XO (XO (XO (XO (XO (XO (XO (XO XH))))))))) (le t))

(** val sub0 : n list -> nat -> nat -> n list **)

let sub0 l a n0 =
  firstn n0 (skipn a l)

type header = { h_sync0 : n; h_sync1 : n; h_reserved : n; h_crc : n;
                h_proto : n; h_msgver : n; h_type : n; h_seq : n;
                h_psize : n; h_source : n }

(** val parse_header : n list -> header **)

let parse_header l =
  { h_sync0 = (le (sub0 l O (S O))); h_sync1 = (le (sub0 l (S O) (S O)));
    h_reserved = (le (sub0 l (S (S O)) (S (S O)))); h_crc =
    (le (sub0 l (S (S (S (S O)))) (S (S (S (S O)))))); h_proto =
    (le (sub0 l (S (S (S (S (S (S (S (S O)))))))) (S O))); h_msgver =
    (le (sub0 l (S (S (S (S (S (S (S (S (S O))))))))) (S O))); h_type =
    (le (sub0 l (S (S (S (S (S (S (S (S (S (S O)))))))))) (S (S O))));
    h_seq =
    (le
      (sub0 l (S (S (S (S (S (S (S (S (S (S (S (S O)))))))))))) (S (S (S (S
        O)))))); h_psize =
    (le
      (sub0 l (S (S (S (S (S (S (S (S (S (S (S (S (S (S (S (S
        O)))))))))))))))) (S (S (S (S O)))))); h_source =
    (le
      (sub0 l (S (S (S (S (S (S (S (S (S (S (S (S (S (S (S (S (S (S (S (S
        O)))))))))))))))))))) (S (S (S (S O)))))) }

(** val crc_region : n list -> nat -> n list **)

let crc_region l n0 =
  sub0 l (S (S (S (S (S (S (S (S O))))))))
    (sub n0 (S (S (S (S (S (S (S (S O)))))))))

(** val sync_mismatch_early : n list -> bool **)

let sync_mismatch_early = function
| [] -> false
| b0 :: t ->
  if negb (N.eqb b0 sYNC0)
  then true
  else (match t with
        | [] -> false
        | b1 :: _ -> negb (N.eqb b1 sYNC1))

(** val judge_fe : bool -> bool -> n -> n list -> verdict **)

let judge_fe eager check_reserved max_payload l =
  if (&&) eager (sync_mismatch_early l)
  then Reject
  else if Nat.ltb (length l) hEADER_SIZE
       then More
       else let h = parse_header (firstn hEADER_SIZE l) in
            if negb ((&&) (N.eqb h.h_sync0 sYNC0) (N.eqb h.h_sync1 sYNC1))
            then Reject
            else if (&&) check_reserved (negb (N.eqb h.h_reserved N0))
                 then Reject
                 else if N.ltb max_payload h.h_psize
                      then Reject
                      else let n0 = add hEADER_SIZE (N.to_nat h.h_psize) in
                           if Nat.ltb (length l) n0
                           then More
                           else if N.eqb (crc32 (crc_region l n0)) h.h_crc
                                then Accept n0
                                else Reject

type fstate =
| FS_SYNC0
| FS_SYNC1
| FS_HEADER
| FS_DATA

(** val f_is_sync : fstate -> bool **)

let f_is_sync = function
| FS_SYNC0 -> true
| _ -> false

type fcore = (fstate, unit) core

type fframer = (fstate, unit) framer

(** val ld32 : n list -> n -> n outcome **)

let ld32 buf a =
  bind (rd_range buf a (Npos (XO (XO XH)))) (fun bs -> Ok (le bs))

(** val to_i32 : n -> z **)

let to_i32 x =
  if N.ltb x (Npos (XO (XO (XO (XO (XO (XO (XO (XO (XO (XO (XO (XO (XO (XO
       (XO (XO (XO (XO (XO (XO (XO (XO (XO (XO (XO (XO (XO (XO (XO (XO (XO
       XH))))))))))))))))))))))))))))))))
  then Z.of_N x
  else Z.sub (Z.of_N x) (Zpos (XO (XO (XO (XO (XO (XO (XO (XO (XO (XO (XO (XO
         (XO (XO (XO (XO (XO (XO (XO (XO (XO (XO (XO (XO (XO (XO (XO (XO (XO
         (XO (XO (XO XH)))))))))))))))))))))))))))))))))

(** val f_crc_check : fcore -> ((fcore * z) * event list) outcome **)

let f_crc_check c =
  bind (ld32 c.c_buf fR_OFF_PSIZE) (fun payload_size_bytes ->
    let size_bytes =
      N.add (N.sub fR_HEADER_SIZE fR_OFF_CRC_START) payload_size_bytes
    in
    bind (rd_range c.c_buf fR_OFF_CRC_START size_bytes) (fun covered ->
      let crc = crc32 covered in
      bind (ld32 c.c_buf fR_OFF_CRC) (fun header_crc ->
        if N.eqb crc header_crc
        then bind
               (rd_range c.c_buf N0 (N.add fR_HEADER_SIZE payload_size_bytes))
               (fun msg -> Ok (((set_state c FS_SYNC0), (to_i32 c.c_size)),
               ((N0, msg) :: [])))
        else Ok (((set_state c FS_SYNC0), (Zneg XH)), []))))

(** val f_on_byte : bool -> fcore -> ((fcore * z) * event list) outcome **)

let f_on_byte _ c =
  if N.eqb c.c_next N0
  then Ok ((c, Z0), [])
  else bind (rd c.c_buf (N.sub c.c_next (Npos XH))) (fun byte ->
         match c.c_state with
         | FS_SYNC0 ->
           if N.eqb byte cPP_SYNC0
           then Ok (((set_state c FS_SYNC1), Z0), [])
           else Ok (((set_next c (u32 (N.sub c.c_next (Npos XH)))), Z0), [])
         | FS_SYNC1 ->
           if N.eqb byte cPP_SYNC0
           then Ok
                  (((set_next (set_state c FS_SYNC1)
                      (u32 (N.sub c.c_next (Npos XH)))), Z0), [])
           else if N.eqb byte cPP_SYNC1
                then Ok (((set_state c FS_HEADER), Z0), [])
                else Ok (((set_size (set_next (set_state c FS_SYNC0) N0) N0),
                       Z0), [])
         | FS_HEADER ->
           if N.eqb c.c_next fR_HEADER_SIZE
           then bind (ld32 c.c_buf fR_OFF_PSIZE) (fun payload_size_bytes ->
                  let c0 =
                    set_size c (u32 (N.add fR_HEADER_SIZE payload_size_bytes))
                  in
                  if N.ltb c0.c_size payload_size_bytes
                  then Ok (((set_state c0 FS_SYNC0), (Zneg XH)), [])
                  else bind (rd c0.c_buf fR_OFF_RESERVED) (fun r0 ->
                         bind (rd c0.c_buf (N.add fR_OFF_RESERVED (Npos XH)))
                           (fun r1 ->
                           if (||) (negb (N.eqb r0 N0)) (negb (N.eqb r1 N0))
                           then Ok (((set_state c0 FS_SYNC0), (Zneg XH)), [])
                           else if N.ltb c0.c_cap c0.c_size
                                then Ok (((set_state c0 FS_SYNC0), (Zneg
                                       XH)), [])
                                else if N.eqb payload_size_bytes N0
                                     then f_crc_check c0
                                     else Ok (((set_state c0 FS_DATA), Z0),
                                            []))))
           else Ok ((c, Z0), [])
         | FS_DATA ->
           if N.eqb c.c_next c.c_size then f_crc_check c else Ok ((c, Z0), []))

(** val f_reset_x : unit -> unit **)

let f_reset_x _ =
  ()

(** val fe_on_data :
    (fstate, unit) framer -> n list -> (((fstate, unit) framer * n) * event
    list) outcome **)

let fe_on_data =
  on_data FS_SYNC0 f_is_sync cPP_SYNC0 true f_on_byte

(** val fe_reset : (fstate, unit) framer -> (fstate, unit) framer **)

let fe_reset =
  reset FS_SYNC0 f_reset_x

(** val fe_set_buffer :
    (fstate, unit) framer -> n option -> n -> n -> n list -> (fstate, unit)
    framer **)

let fe_set_buffer =
  set_buffer FS_SYNC0 f_reset_x fR_HEADER_SIZE true fR_CLAMP fR_ALIGN_MASK

(** val fe_legacy_on_data :
    (fstate, unit) framer -> n list -> (((fstate, unit) framer * n) * event
    list) outcome **)

let fe_legacy_on_data =
  on_data FS_SYNC0 f_is_sync cPP_SYNC0 false f_on_byte

(** val fe_legacy_set_buffer :
    (fstate, unit) framer -> n option -> n -> n -> n list -> (fstate, unit)
    framer **)

let fe_legacy_set_buffer =
  set_buffer FS_SYNC0 f_reset_x fR_HEADER_SIZE false fR_CLAMP fR_ALIGN_MASK

(** val fe_default : fframer **)

let fe_default =
  { f_has = false; f_managed = false; f_core = { c_buf = []; c_cap = N0;
    c_state = FS_SYNC0; c_next = N0; c_size = N0; c_x = () } }

(** val fe_construct_with :
    (fframer -> n option -> n -> n -> n list -> fframer) -> n option -> n ->
    n -> n list -> fframer **)

let fe_construct_with sb user alloc_addr capacity mem =
  match user with
  | Some a -> sb fe_default (Some a) alloc_addr capacity mem
  | None ->
    sb fe_default None alloc_addr (N.add capacity fR_MANAGED_EXTRA) mem

(** val fe_construct : n option -> n -> n -> n list -> fframer **)

let fe_construct =
  fe_construct_with fe_set_buffer

(** val fe_legacy_construct : n option -> n -> n -> n list -> fframer **)

let fe_legacy_construct =
  fe_construct_with fe_legacy_set_buffer

(** val fe_op_with :
    (fframer -> n list -> ((fframer * n) * event list) outcome) -> (fframer
    -> n option -> n -> n -> n list -> fframer) -> fframer -> op ->
    ((fframer * n) * event list) outcome **)

let fe_op_with od sb f = function
| OpData chunk -> od f chunk
| OpReset -> Ok (((fe_reset f), N0), [])
| OpSetBuffer (user, alloc_addr, capacity, mem) ->
  Ok (((sb f user alloc_addr capacity mem), N0), [])

(** val fe_op : fframer -> op -> ((fframer * n) * event list) outcome **)

let fe_op =
  fe_op_with fe_on_data fe_set_buffer

(** val fe_legacy_op :
    fframer -> op -> ((fframer * n) * event list) outcome **)

let fe_legacy_op =
  fe_op_with fe_legacy_on_data fe_legacy_set_buffer

(** val judge_fe_cap : n -> n list -> verdict **)

let judge_fe_cap cap =
  judge_fe true true (N.sub cap fR_HEADER_SIZE)

(** val fe_event_of : (nat * n list) -> event **)

let fe_event_of f =
  (N0, (snd f))

(** val fe_spec_op : spst -> op -> spst * (nat * n list) list **)

let fe_spec_op =
  spec_op judge_fe_cap fR_HEADER_SIZE fR_CLAMP

(** val fe_spec_construct : n option -> n -> n -> spst **)

let fe_spec_construct user alloc_addr capacity =
  fst
    (fe_spec_op spec_init (OpSetBuffer (user, alloc_addr,
      (match user with
       | Some _ -> capacity
       | None -> N.add capacity fR_MANAGED_EXTRA), [])))

(** val judge_py_cap : n -> n list -> verdict **)

let judge_py_cap cap =
  judge_fe false true (N.sub cap fR_HEADER_SIZE)
