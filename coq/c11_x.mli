
val negb : bool -> bool

type nat =
| O
| S of nat

val option_map : ('a1 -> 'a2) -> 'a1 option -> 'a2 option

val fst : ('a1 * 'a2) -> 'a1

val length : 'a1 list -> nat

val app : 'a1 list -> 'a1 list -> 'a1 list

type comparison =
| Eq
| Lt
| Gt

val compOpp : comparison -> comparison

val add : nat -> nat -> nat

type positive =
| XI of positive
| XO of positive
| XH

type z =
| Z0
| Zpos of positive
| Zneg of positive

module Pos :
 sig
  val succ : positive -> positive

  val add : positive -> positive -> positive

  val add_carry : positive -> positive -> positive

  val pred_double : positive -> positive

  val mul : positive -> positive -> positive

  val compare_cont : comparison -> positive -> positive -> comparison

  val compare : positive -> positive -> comparison

  val eqb : positive -> positive -> bool

  val iter_op : ('a1 -> 'a1 -> 'a1) -> positive -> 'a1 -> 'a1

  val to_nat : positive -> nat

  val of_succ_nat : nat -> positive
 end

module Z :
 sig
  val double : z -> z

  val succ_double : z -> z

  val pred_double : z -> z

  val pos_sub : positive -> positive -> z

  val add : z -> z -> z

  val opp : z -> z

  val sub : z -> z -> z

  val mul : z -> z -> z

  val compare : z -> z -> comparison

  val leb : z -> z -> bool

  val ltb : z -> z -> bool

  val eqb : z -> z -> bool

  val max : z -> z -> z

  val min : z -> z -> z

  val to_nat : z -> nat

  val of_nat : nat -> z

  val pos_div_eucl : positive -> z -> z * z

  val div_eucl : z -> z -> z * z

  val div : z -> z -> z

  val modulo : z -> z -> z
 end

val nth_error : 'a1 list -> nat -> 'a1 option

val rev : 'a1 list -> 'a1 list

val map : ('a1 -> 'a2) -> 'a1 list -> 'a2 list

val fold_right : ('a2 -> 'a1 -> 'a1) -> 'a1 -> 'a2 list -> 'a1

val existsb : ('a1 -> bool) -> 'a1 list -> bool

val forallb : ('a1 -> bool) -> 'a1 list -> bool

val filter : ('a1 -> bool) -> 'a1 list -> 'a1 list

val find : ('a1 -> bool) -> 'a1 list -> 'a1 option

val firstn : nat -> 'a1 list -> 'a1 list

val skipn : nat -> 'a1 list -> 'a1 list

type fixes = { fx_payload : bool; fx_after_log : bool; fx_time_first : 
               bool; fx_remove_nans : bool; fx_last_off : bool;
               fx_populate_rewind : bool; fx_srcs_as_requested : bool }

val fixed : fixes

val legacy : fixes

type err =
| IndexError
| ValueError
| UnboundLocalError
| Unsupported
| InternalError

type 'a res =
| Ok of 'a
| Err of err

type entry = { e_time : z option; e_type : z; e_off : z; e_idx : z }

type findex = { fi_data : entry list; fi_t0 : z option }

val zlen : 'a1 list -> z

val find_first_from : bool list -> z -> z

val find_first : bool list -> z

val argmax_bool : bool list -> z

val first_time : entry list -> z option

val mk_index : entry list -> z option -> findex

val slice_nn : 'a1 list -> z -> z -> 'a1 list

val filter_i_from : (z -> 'a1 -> bool) -> z -> 'a1 list -> 'a1 list

val filter_i : (z -> 'a1 -> bool) -> 'a1 list -> 'a1 list

val is_nan : entry -> bool

val time_ge_s : z -> entry -> bool

val time_ge_8 : z -> entry -> bool

type bnd =
| BNone
| BNaN
| BVal of z

val bnd_is_none : bnd -> bool

type hint =
| IncludeNans
| AllNans
| RemoveNans

val hint_is_include : hint -> bool

type trange = { tr_start : z option; tr_end : z option; tr_abs : bool;
                tr_t0 : z option }

val bnd_add : z option -> z option -> bnd

val bnd_of : z option -> bnd

val resolve_range : findex -> trange -> bnd * bnd

val get_time_range_b : fixes -> findex -> bnd -> bnd -> hint -> findex res

val get_time_range_R : fixes -> findex -> trange -> hint -> findex res

type key =
| KNone
| KTypes of z list
| KTimeSlice of z option * z option * hint option
| KTimeRange of trange
| KIdxSlice of z option * z option * z option

val memZ : z -> z list -> bool

val norm_idx : z -> z option -> z -> z

val py_slice : 'a1 list -> z option -> z option -> z -> 'a1 list

val getitem : fixes -> findex -> key -> findex res

val started_before : z -> entry list -> bool

val ended_before : z -> entry list -> bool

val window_ok : z option -> z option -> entry list -> entry -> bool

val window_hint : hint -> z option -> z option -> entry list -> entry -> bool

val filter_pos_from :
  (entry list -> entry -> bool) -> entry list -> entry list -> entry list

val filter_pos : (entry list -> entry -> bool) -> entry list -> entry list

val bnd_val : bnd -> z option

val spec_time : findex -> bnd -> bnd -> hint -> findex res

val spec_getitem : findex -> key -> findex res

val header_size : z

val read_size_bytes : z

val populate_count : nat

type msg = { m_off : z; m_size : z; m_type : z; m_src : z; m_time : z option }

type file = { f_msgs : msg list; f_size : z }

val entry_of : z -> msg -> entry

val entries_from : z -> msg list -> entry list

val index_limit : file -> z option -> z option

val below : z option -> z -> bool

val index_of_file : file -> z option -> findex

type cfg = { c_max_bytes : z option; c_hdr : bool; c_pay : bool;
             c_bytes : bool; c_offset : bool; c_index : bool;
             c_has_range : bool }

type reader = { r_orig : findex; r_index : findex; r_next : z; r_last : 
                z; r_srcs : z list option; r_avail : z list }

val set_index : reader -> findex -> reader

val set_cursor : reader -> z -> z -> reader

val set_next : reader -> z -> reader

val set_srcs : reader -> z list option -> reader

val set_avail : reader -> z list -> reader

type piece =
| PHeader of msg
| PPayload of msg
| PBytes of z * z
| POffset of z
| PIndex of z

val assemble : cfg -> msg -> z -> z -> piece list

val exceeds : z option -> z -> bool

val src_ok : z list option -> msg -> bool

val file_at : file -> z -> msg option

type step =
| SStop
| SSkip
| SRet of msg
| SErr of err

val read_entry : fixes -> cfg -> z list option -> file -> entry -> step

type outcome =
| OMsg of msg * piece list
| OStop
| OErr of err

val read_loop :
  fixes -> cfg -> z list option -> file -> entry list -> z -> z ->
  (outcome * z) * z

val read_next : fixes -> cfg -> file -> reader -> reader * outcome

val relocate : entry list -> z -> z

val prev_offset : fixes -> reader -> z res

val set_eqb : z list -> z list -> bool

val apply_source_ids : fixes -> reader -> z list option -> reader

val filter_in_place :
  fixes -> reader -> key -> bool -> z list option -> reader * unit res

val rewind : reader -> reader

val insert_uniq : z -> z list -> z list

val uniq_sorted : z list -> z list

val read_n :
  fixes -> cfg -> file -> nat -> reader -> z list -> (reader * z list) res

val with_header : cfg -> cfg

val populate_types :
  fixes -> cfg -> file -> z list -> reader -> z list -> (reader * z list) res

val populate : fixes -> cfg -> file -> reader -> reader res

val norm_types : z list option -> z list option

val types_key : z list option -> key

val range_key : trange option -> key

val bind : 'a1 res -> ('a1 -> 'a2 res) -> 'a2 res

val construct :
  fixes -> cfg -> file -> z list option -> z list option -> trange option ->
  reader res

type op =
| OpRead
| OpFilter of key
| OpRemoveUntimed
| OpClear
| OpRewind
| OpSeek of z * bool
| OpSeekEof

type opres =
| RMsg of msg * piece list
| RStop
| RErr of err
| RDone

val of_outcome : outcome -> opres

val of_unit : unit res -> opres

val last_off : entry list -> z option

val step_op : fixes -> cfg -> file -> reader -> op -> reader * opres

val run_ops : fixes -> cfg -> file -> reader -> op list -> opres list * reader

val run_script :
  fixes -> cfg -> file -> z list option -> op list -> opres list res

type cursor = { cs_orig : findex; cs_cur : findex; cs_pos : z;
                cs_srcs : z list option }

val beyond : z -> entry list -> entry list

val spec_scan : cfg -> z list option -> file -> entry list -> z -> opres * z

val set_cur : cursor -> findex -> cursor

val set_pos : cursor -> z -> cursor

val spec_step : cfg -> file -> cursor -> op -> cursor * opres

val spec_run : cfg -> file -> cursor -> op list -> opres list

val spec_script : cfg -> file -> z list option -> op list -> opres list
