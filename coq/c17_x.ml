
(** val negb : bool -> bool **)

let negb = function
| true -> false
| false -> true

type nat =
| O
| S of nat

type ('a, 'b) sum =
| Inl of 'a
| Inr of 'b

(** val fst : ('a1 * 'a2) -> 'a1 **)

let fst = function
| (x, _) -> x

(** val snd : ('a1 * 'a2) -> 'a2 **)

let snd = function
| (_, y) -> y

(** val length : 'a1 list -> nat **)

let rec length = function
| [] -> O
| _ :: l' -> S (length l')

(** val app : 'a1 list -> 'a1 list -> 'a1 list **)

let rec app l m =
  match l with
  | [] -> m
  | a :: l1 -> a :: (app l1 m)

type comparison =
| Eq
| Lt
| Gt

(** val compOpp : comparison -> comparison **)

let compOpp = function
| Eq -> Eq
| Lt -> Gt
| Gt -> Lt

type uint =
| Nil
| D0 of uint
| D1 of uint
| D2 of uint
| D3 of uint
| D4 of uint
| D5 of uint
| D6 of uint
| D7 of uint
| D8 of uint
| D9 of uint

type signed_int =
| Pos of uint
| Neg of uint

(** val revapp : uint -> uint -> uint **)

let rec revapp d d' =
  match d with
  | Nil -> d'
  | D0 d0 -> revapp d0 (D0 d')
  | D1 d0 -> revapp d0 (D1 d')
  | D2 d0 -> revapp d0 (D2 d')
  | D3 d0 -> revapp d0 (D3 d')
  | D4 d0 -> revapp d0 (D4 d')
  | D5 d0 -> revapp d0 (D5 d')
  | D6 d0 -> revapp d0 (D6 d')
  | D7 d0 -> revapp d0 (D7 d')
  | D8 d0 -> revapp d0 (D8 d')
  | D9 d0 -> revapp d0 (D9 d')

(** val rev : uint -> uint **)

let rev d =
  revapp d Nil

module Little =
 struct
  (** val double : uint -> uint **)

  let rec double = function
  | Nil -> Nil
  | D0 d0 -> D0 (double d0)
  | D1 d0 -> D2 (double d0)
  | D2 d0 -> D4 (double d0)
  | D3 d0 -> D6 (double d0)
  | D4 d0 -> D8 (double d0)
  | D5 d0 -> D0 (succ_double d0)
  | D6 d0 -> D2 (succ_double d0)
  | D7 d0 -> D4 (succ_double d0)
  | D8 d0 -> D6 (succ_double d0)
  | D9 d0 -> D8 (succ_double d0)

  (** val succ_double : uint -> uint **)

  and succ_double = function
  | Nil -> D1 Nil
  | D0 d0 -> D1 (double d0)
  | D1 d0 -> D3 (double d0)
  | D2 d0 -> D5 (double d0)
  | D3 d0 -> D7 (double d0)
  | D4 d0 -> D9 (double d0)
  | D5 d0 -> D1 (succ_double d0)
  | D6 d0 -> D3 (succ_double d0)
  | D7 d0 -> D5 (succ_double d0)
  | D8 d0 -> D7 (succ_double d0)
  | D9 d0 -> D9 (succ_double d0)
 end

type positive =
| XI of positive
| XO of positive
| XH

type n =
| N0
| Npos of positive

type z =
| Z0
| Zpos of positive
| Zneg of positive

(** val eqb : bool -> bool -> bool **)

let eqb b1 b2 =
  if b1 then b2 else if b2 then false else true

module Pos =
 struct
  type mask =
  | IsNul
  | IsPos of positive
  | IsNeg
 end

module Coq_Pos =
 struct
  (** val succ : positive -> positive **)

  let rec succ = function
  | XI p -> XO (succ p)
  | XO p -> XI p
  | XH -> XO XH

  (** val add : positive -> positive -> positive **)

  let rec add x y =
    match x with
    | XI p ->
      (match y with
       | XI q -> XO (add_carry p q)
       | XO q -> XI (add p q)
       | XH -> XO (succ p))
    | XO p ->
      (match y with
       | XI q -> XI (add p q)
       | XO q -> XO (add p q)
       | XH -> XI p)
    | XH -> (match y with
             | XI q -> XO (succ q)
             | XO q -> XI q
             | XH -> XO XH)

  (** val add_carry : positive -> positive -> positive **)

  and add_carry x y =
    match x with
    | XI p ->
      (match y with
       | XI q -> XI (add_carry p q)
       | XO q -> XO (add_carry p q)
       | XH -> XI (succ p))
    | XO p ->
      (match y with
       | XI q -> XO (add_carry p q)
       | XO q -> XI (add p q)
       | XH -> XO (succ p))
    | XH ->
      (match y with
       | XI q -> XI (succ q)
       | XO q -> XO (succ q)
       | XH -> XI XH)

  (** val pred_double : positive -> positive **)

  let rec pred_double = function
  | XI p -> XI (XO p)
  | XO p -> XI (pred_double p)
  | XH -> XH

  (** val pred_N : positive -> n **)

  let pred_N = function
  | XI p -> Npos (XO p)
  | XO p -> Npos (pred_double p)
  | XH -> N0

  type mask = Pos.mask =
  | IsNul
  | IsPos of positive
  | IsNeg

  (** val succ_double_mask : mask -> mask **)

  let succ_double_mask = function
  | IsNul -> IsPos XH
  | IsPos p -> IsPos (XI p)
  | IsNeg -> IsNeg

  (** val double_mask : mask -> mask **)

  let double_mask = function
  | IsPos p -> IsPos (XO p)
  | x0 -> x0

  (** val double_pred_mask : positive -> mask **)

  let double_pred_mask = function
  | XI p -> IsPos (XO (XO p))
  | XO p -> IsPos (XO (pred_double p))
  | XH -> IsNul

  (** val sub_mask : positive -> positive -> mask **)

  let rec sub_mask x y =
    match x with
    | XI p ->
      (match y with
       | XI q -> double_mask (sub_mask p q)
       | XO q -> succ_double_mask (sub_mask p q)
       | XH -> IsPos (XO p))
    | XO p ->
      (match y with
       | XI q -> succ_double_mask (sub_mask_carry p q)
       | XO q -> double_mask (sub_mask p q)
       | XH -> IsPos (pred_double p))
    | XH -> (match y with
             | XH -> IsNul
             | _ -> IsNeg)

  (** val sub_mask_carry : positive -> positive -> mask **)

  and sub_mask_carry x y =
    match x with
    | XI p ->
      (match y with
       | XI q -> succ_double_mask (sub_mask_carry p q)
       | XO q -> double_mask (sub_mask p q)
       | XH -> IsPos (pred_double p))
    | XO p ->
      (match y with
       | XI q -> double_mask (sub_mask_carry p q)
       | XO q -> succ_double_mask (sub_mask_carry p q)
       | XH -> double_pred_mask p)
    | XH -> IsNeg

  (** val mul : positive -> positive -> positive **)

  let rec mul x y =
    match x with
    | XI p -> add y (XO (mul p y))
    | XO p -> XO (mul p y)
    | XH -> y

  (** val iter : ('a1 -> 'a1) -> 'a1 -> positive -> 'a1 **)

  let rec iter f x = function
  | XI n' -> f (iter f (iter f x n') n')
  | XO n' -> iter f (iter f x n') n'
  | XH -> f x

  (** val div2 : positive -> positive **)

  let div2 = function
  | XI p0 -> p0
  | XO p0 -> p0
  | XH -> XH

  (** val div2_up : positive -> positive **)

  let div2_up = function
  | XI p0 -> succ p0
  | XO p0 -> p0
  | XH -> XH

  (** val compare_cont : comparison -> positive -> positive -> comparison **)

  let rec compare_cont r x y =
    match x with
    | XI p ->
      (match y with
       | XI q -> compare_cont r p q
       | XO q -> compare_cont Gt p q
       | XH -> Gt)
    | XO p ->
      (match y with
       | XI q -> compare_cont Lt p q
       | XO q -> compare_cont r p q
       | XH -> Gt)
    | XH -> (match y with
             | XH -> r
             | _ -> Lt)

  (** val compare : positive -> positive -> comparison **)

  let compare =
    compare_cont Eq

  (** val eqb : positive -> positive -> bool **)

  let rec eqb p q =
    match p with
    | XI p0 -> (match q with
                | XI q0 -> eqb p0 q0
                | _ -> false)
    | XO p0 -> (match q with
                | XO q0 -> eqb p0 q0
                | _ -> false)
    | XH -> (match q with
             | XH -> true
             | _ -> false)

  (** val coq_Nsucc_double : n -> n **)

  let coq_Nsucc_double = function
  | N0 -> Npos XH
  | Npos p -> Npos (XI p)

  (** val coq_Ndouble : n -> n **)

  let coq_Ndouble = function
  | N0 -> N0
  | Npos p -> Npos (XO p)

  (** val coq_lor : positive -> positive -> positive **)

  let rec coq_lor p q =
    match p with
    | XI p0 ->
      (match q with
       | XI q0 -> XI (coq_lor p0 q0)
       | XO q0 -> XI (coq_lor p0 q0)
       | XH -> p)
    | XO p0 ->
      (match q with
       | XI q0 -> XI (coq_lor p0 q0)
       | XO q0 -> XO (coq_lor p0 q0)
       | XH -> XI p0)
    | XH -> (match q with
             | XO q0 -> XI q0
             | _ -> q)

  (** val coq_land : positive -> positive -> n **)

  let rec coq_land p q =
    match p with
    | XI p0 ->
      (match q with
       | XI q0 -> coq_Nsucc_double (coq_land p0 q0)
       | XO q0 -> coq_Ndouble (coq_land p0 q0)
       | XH -> Npos XH)
    | XO p0 ->
      (match q with
       | XI q0 -> coq_Ndouble (coq_land p0 q0)
       | XO q0 -> coq_Ndouble (coq_land p0 q0)
       | XH -> N0)
    | XH -> (match q with
             | XO _ -> N0
             | _ -> Npos XH)

  (** val ldiff : positive -> positive -> n **)

  let rec ldiff p q =
    match p with
    | XI p0 ->
      (match q with
       | XI q0 -> coq_Ndouble (ldiff p0 q0)
       | XO q0 -> coq_Nsucc_double (ldiff p0 q0)
       | XH -> Npos (XO p0))
    | XO p0 ->
      (match q with
       | XI q0 -> coq_Ndouble (ldiff p0 q0)
       | XO q0 -> coq_Ndouble (ldiff p0 q0)
       | XH -> Npos p)
    | XH -> (match q with
             | XO _ -> Npos XH
             | _ -> N0)

  (** val to_little_uint : positive -> uint **)

  let rec to_little_uint = function
  | XI p0 -> Little.succ_double (to_little_uint p0)
  | XO p0 -> Little.double (to_little_uint p0)
  | XH -> D1 Nil

  (** val to_uint : positive -> uint **)

  let to_uint p =
    rev (to_little_uint p)
 end

module N =
 struct
  (** val succ_pos : n -> positive **)

  let succ_pos = function
  | N0 -> XH
  | Npos p -> Coq_Pos.succ p

  (** val add : n -> n -> n **)

  let add n0 m =
    match n0 with
    | N0 -> m
    | Npos p -> (match m with
                 | N0 -> n0
                 | Npos q -> Npos (Coq_Pos.add p q))

  (** val sub : n -> n -> n **)

  let sub n0 m =
    match n0 with
    | N0 -> N0
    | Npos n' ->
      (match m with
       | N0 -> n0
       | Npos m' ->
         (match Coq_Pos.sub_mask n' m' with
          | Coq_Pos.IsPos p -> Npos p
          | _ -> N0))

  (** val mul : n -> n -> n **)

  let mul n0 m =
    match n0 with
    | N0 -> N0
    | Npos p -> (match m with
                 | N0 -> N0
                 | Npos q -> Npos (Coq_Pos.mul p q))

  (** val compare : n -> n -> comparison **)

  let compare n0 m =
    match n0 with
    | N0 -> (match m with
             | N0 -> Eq
             | Npos _ -> Lt)
    | Npos n' -> (match m with
                  | N0 -> Gt
                  | Npos m' -> Coq_Pos.compare n' m')

  (** val leb : n -> n -> bool **)

  let leb x y =
    match compare x y with
    | Gt -> false
    | _ -> true

  (** val coq_lor : n -> n -> n **)

  let coq_lor n0 m =
    match n0 with
    | N0 -> m
    | Npos p -> (match m with
                 | N0 -> n0
                 | Npos q -> Npos (Coq_Pos.coq_lor p q))

  (** val coq_land : n -> n -> n **)

  let coq_land n0 m =
    match n0 with
    | N0 -> N0
    | Npos p -> (match m with
                 | N0 -> N0
                 | Npos q -> Coq_Pos.coq_land p q)

  (** val ldiff : n -> n -> n **)

  let ldiff n0 m =
    match n0 with
    | N0 -> N0
    | Npos p -> (match m with
                 | N0 -> n0
                 | Npos q -> Coq_Pos.ldiff p q)
 end

module Z =
 struct
  (** val double : z -> z **)

  let double = function
  | Z0 -> Z0
  | Zpos p -> Zpos (XO p)
  | Zneg p -> Zneg (XO p)

  (** val succ_double : z -> z **)

  let succ_double = function
  | Z0 -> Zpos XH
  | Zpos p -> Zpos (XI p)
  | Zneg p -> Zneg (Coq_Pos.pred_double p)

  (** val pred_double : z -> z **)

  let pred_double = function
  | Z0 -> Zneg XH
  | Zpos p -> Zpos (Coq_Pos.pred_double p)
  | Zneg p -> Zneg (XI p)

  (** val pos_sub : positive -> positive -> z **)

  let rec pos_sub x y =
    match x with
    | XI p ->
      (match y with
       | XI q -> double (pos_sub p q)
       | XO q -> succ_double (pos_sub p q)
       | XH -> Zpos (XO p))
    | XO p ->
      (match y with
       | XI q -> pred_double (pos_sub p q)
       | XO q -> double (pos_sub p q)
       | XH -> Zpos (Coq_Pos.pred_double p))
    | XH ->
      (match y with
       | XI q -> Zneg (XO q)
       | XO q -> Zneg (Coq_Pos.pred_double q)
       | XH -> Z0)

  (** val add : z -> z -> z **)

  let add x y =
    match x with
    | Z0 -> y
    | Zpos x' ->
      (match y with
       | Z0 -> x
       | Zpos y' -> Zpos (Coq_Pos.add x' y')
       | Zneg y' -> pos_sub x' y')
    | Zneg x' ->
      (match y with
       | Z0 -> x
       | Zpos y' -> pos_sub y' x'
       | Zneg y' -> Zneg (Coq_Pos.add x' y'))

  (** val opp : z -> z **)

  let opp = function
  | Z0 -> Z0
  | Zpos x0 -> Zneg x0
  | Zneg x0 -> Zpos x0

  (** val sub : z -> z -> z **)

  let sub m n0 =
    add m (opp n0)

  (** val mul : z -> z -> z **)

  let mul x y =
    match x with
    | Z0 -> Z0
    | Zpos x' ->
      (match y with
       | Z0 -> Z0
       | Zpos y' -> Zpos (Coq_Pos.mul x' y')
       | Zneg y' -> Zneg (Coq_Pos.mul x' y'))
    | Zneg x' ->
      (match y with
       | Z0 -> Z0
       | Zpos y' -> Zneg (Coq_Pos.mul x' y')
       | Zneg y' -> Zpos (Coq_Pos.mul x' y'))

  (** val compare : z -> z -> comparison **)

  let compare x y =
    match x with
    | Z0 -> (match y with
             | Z0 -> Eq
             | Zpos _ -> Lt
             | Zneg _ -> Gt)
    | Zpos x' -> (match y with
                  | Zpos y' -> Coq_Pos.compare x' y'
                  | _ -> Gt)
    | Zneg x' ->
      (match y with
       | Zneg y' -> compOpp (Coq_Pos.compare x' y')
       | _ -> Lt)

  (** val leb : z -> z -> bool **)

  let leb x y =
    match compare x y with
    | Gt -> false
    | _ -> true

  (** val ltb : z -> z -> bool **)

  let ltb x y =
    match compare x y with
    | Lt -> true
    | _ -> false

  (** val eqb : z -> z -> bool **)

  let eqb x y =
    match x with
    | Z0 -> (match y with
             | Z0 -> true
             | _ -> false)
    | Zpos p -> (match y with
                 | Zpos q -> Coq_Pos.eqb p q
                 | _ -> false)
    | Zneg p -> (match y with
                 | Zneg q -> Coq_Pos.eqb p q
                 | _ -> false)

  (** val min : z -> z -> z **)

  let min n0 m =
    match compare n0 m with
    | Gt -> m
    | _ -> n0

  (** val of_N : n -> z **)

  let of_N = function
  | N0 -> Z0
  | Npos p -> Zpos p

  (** val to_int : z -> signed_int **)

  let to_int = function
  | Z0 -> Pos (D0 Nil)
  | Zpos p -> Pos (Coq_Pos.to_uint p)
  | Zneg p -> Neg (Coq_Pos.to_uint p)

  (** val div2 : z -> z **)

  let div2 = function
  | Z0 -> Z0
  | Zpos p -> (match p with
               | XH -> Z0
               | _ -> Zpos (Coq_Pos.div2 p))
  | Zneg p -> Zneg (Coq_Pos.div2_up p)

  (** val shiftl : z -> z -> z **)

  let shiftl a = function
  | Z0 -> a
  | Zpos p -> Coq_Pos.iter (mul (Zpos (XO XH))) a p
  | Zneg p -> Coq_Pos.iter div2 a p

  (** val coq_lor : z -> z -> z **)

  let coq_lor a b =
    match a with
    | Z0 -> b
    | Zpos a0 ->
      (match b with
       | Z0 -> a
       | Zpos b0 -> Zpos (Coq_Pos.coq_lor a0 b0)
       | Zneg b0 -> Zneg (N.succ_pos (N.ldiff (Coq_Pos.pred_N b0) (Npos a0))))
    | Zneg a0 ->
      (match b with
       | Z0 -> a
       | Zpos b0 -> Zneg (N.succ_pos (N.ldiff (Coq_Pos.pred_N a0) (Npos b0)))
       | Zneg b0 ->
         Zneg
           (N.succ_pos (N.coq_land (Coq_Pos.pred_N a0) (Coq_Pos.pred_N b0))))

  (** val coq_land : z -> z -> z **)

  let coq_land a b =
    match a with
    | Z0 -> Z0
    | Zpos a0 ->
      (match b with
       | Z0 -> Z0
       | Zpos b0 -> of_N (Coq_Pos.coq_land a0 b0)
       | Zneg b0 -> of_N (N.ldiff (Npos a0) (Coq_Pos.pred_N b0)))
    | Zneg a0 ->
      (match b with
       | Z0 -> Z0
       | Zpos b0 -> of_N (N.ldiff (Npos b0) (Coq_Pos.pred_N a0))
       | Zneg b0 ->
         Zneg (N.succ_pos (N.coq_lor (Coq_Pos.pred_N a0) (Coq_Pos.pred_N b0))))
 end

(** val rev0 : 'a1 list -> 'a1 list **)

let rec rev0 = function
| [] -> []
| x :: l' -> app (rev0 l') (x :: [])

(** val map : ('a1 -> 'a2) -> 'a1 list -> 'a2 list **)

let rec map f = function
| [] -> []
| a :: t -> (f a) :: (map f t)

(** val fold_left : ('a1 -> 'a2 -> 'a1) -> 'a2 list -> 'a1 -> 'a1 **)

let rec fold_left f l a0 =
  match l with
  | [] -> a0
  | b :: t -> fold_left f t (f a0 b)

(** val fold_right : ('a2 -> 'a1 -> 'a1) -> 'a1 -> 'a2 list -> 'a1 **)

let rec fold_right f a0 = function
| [] -> a0
| b :: t -> f b (fold_right f a0 t)

(** val existsb : ('a1 -> bool) -> 'a1 list -> bool **)

let rec existsb f = function
| [] -> false
| a :: l0 -> (||) (f a) (existsb f l0)

(** val forallb : ('a1 -> bool) -> 'a1 list -> bool **)

let rec forallb f = function
| [] -> true
| a :: l0 -> (&&) (f a) (forallb f l0)

(** val filter : ('a1 -> bool) -> 'a1 list -> 'a1 list **)

let rec filter f = function
| [] -> []
| x :: l0 -> if f x then x :: (filter f l0) else filter f l0

(** val find : ('a1 -> bool) -> 'a1 list -> 'a1 option **)

let rec find f = function
| [] -> None
| x :: tl -> if f x then Some x else find f tl

type ascii =
| Ascii of bool * bool * bool * bool * bool * bool * bool * bool

(** val zero : ascii **)

let zero =
  Ascii (false, false, false, false, false, false, false, false)

(** val one : ascii **)

let one =
  Ascii (true, false, false, false, false, false, false, false)

(** val shift : bool -> ascii -> ascii **)

let shift c = function
| Ascii (a1, a2, a3, a4, a5, a6, a7, _) ->
  Ascii (c, a1, a2, a3, a4, a5, a6, a7)

(** val eqb0 : ascii -> ascii -> bool **)

let eqb0 a b =
  let Ascii (a0, a1, a2, a3, a4, a5, a6, a7) = a in
  let Ascii (b0, b1, b2, b3, b4, b5, b6, b7) = b in
  if if if if if if if eqb a0 b0 then eqb a1 b1 else false
                 then eqb a2 b2
                 else false
              then eqb a3 b3
              else false
           then eqb a4 b4
           else false
        then eqb a5 b5
        else false
     then eqb a6 b6
     else false
  then eqb a7 b7
  else false

(** val ascii_of_pos : positive -> ascii **)

let ascii_of_pos =
  let rec loop n0 p =
    match n0 with
    | O -> zero
    | S n' ->
      (match p with
       | XI p' -> shift true (loop n' p')
       | XO p' -> shift false (loop n' p')
       | XH -> one)
  in loop (S (S (S (S (S (S (S (S O))))))))

(** val ascii_of_N : n -> ascii **)

let ascii_of_N = function
| N0 -> zero
| Npos p -> ascii_of_pos p

(** val n_of_digits : bool list -> n **)

let rec n_of_digits = function
| [] -> N0
| b :: l' ->
  N.add (if b then Npos XH else N0) (N.mul (Npos (XO XH)) (n_of_digits l'))

(** val n_of_ascii : ascii -> n **)

let n_of_ascii = function
| Ascii (a0, a1, a2, a3, a4, a5, a6, a7) ->
  n_of_digits
    (a0 :: (a1 :: (a2 :: (a3 :: (a4 :: (a5 :: (a6 :: (a7 :: []))))))))

(** val compare0 : ascii -> ascii -> comparison **)

let compare0 a b =
  N.compare (n_of_ascii a) (n_of_ascii b)

type string =
| EmptyString
| String of ascii * string

(** val eqb1 : string -> string -> bool **)

let rec eqb1 s1 s2 =
  match s1 with
  | EmptyString ->
    (match s2 with
     | EmptyString -> true
     | String (_, _) -> false)
  | String (c1, s1') ->
    (match s2 with
     | EmptyString -> false
     | String (c2, s2') -> if eqb0 c1 c2 then eqb1 s1' s2' else false)

(** val compare1 : string -> string -> comparison **)

let rec compare1 s1 s2 =
  match s1 with
  | EmptyString -> (match s2 with
                    | EmptyString -> Eq
                    | String (_, _) -> Lt)
  | String (c1, s1') ->
    (match s2 with
     | EmptyString -> Gt
     | String (c2, s2') ->
       (match compare0 c1 c2 with
        | Eq -> compare1 s1' s2'
        | x -> x))

(** val append : string -> string -> string **)

let rec append s1 s2 =
  match s1 with
  | EmptyString -> s2
  | String (c, s1') -> String (c, (append s1' s2))

(** val unrecognized_prefix : string **)

let unrecognized_prefix =
  String ((Ascii (true, true, true, true, true, false, true, false)), (String
    ((Ascii (true, false, true, false, true, false, true, false)),
    EmptyString)))

(** val hidden_sep : string **)

let hidden_sep =
  String ((Ascii (true, true, true, true, true, false, true, false)),
    EmptyString)

(** val enum_internals : string list **)

let enum_internals =
  (String ((Ascii (true, true, true, true, true, false, true, false)),
    (String ((Ascii (true, true, true, true, true, false, true, false)),
    (String ((Ascii (true, false, false, false, false, true, true, false)),
    (String ((Ascii (false, true, false, false, false, true, true, false)),
    (String ((Ascii (true, true, false, false, true, true, true, false)),
    (String ((Ascii (true, true, true, true, true, false, true, false)),
    (String ((Ascii (true, true, true, true, true, false, true, false)),
    EmptyString)))))))))))))) :: ((String ((Ascii (true, true, true, true,
    true, false, true, false)), (String ((Ascii (true, true, true, true,
    true, false, true, false)), (String ((Ascii (true, false, false, false,
    false, true, true, false)), (String ((Ascii (false, false, true, false,
    false, true, true, false)), (String ((Ascii (false, false, true, false,
    false, true, true, false)), (String ((Ascii (true, true, true, true,
    true, false, true, false)), (String ((Ascii (true, true, true, true,
    true, false, true, false)), EmptyString)))))))))))))) :: ((String ((Ascii
    (true, true, true, true, true, false, true, false)), (String ((Ascii
    (true, true, true, true, true, false, true, false)), (String ((Ascii
    (true, false, false, false, false, true, true, false)), (String ((Ascii
    (false, true, true, true, false, true, true, false)), (String ((Ascii
    (false, false, true, false, false, true, true, false)), (String ((Ascii
    (true, true, true, true, true, false, true, false)), (String ((Ascii
    (true, true, true, true, true, false, true, false)),
    EmptyString)))))))))))))) :: ((String ((Ascii (true, true, true, true,
    true, false, true, false)), (String ((Ascii (true, true, true, true,
    true, false, true, false)), (String ((Ascii (false, true, false, false,
    false, true, true, false)), (String ((Ascii (true, true, true, true,
    false, true, true, false)), (String ((Ascii (true, true, true, true,
    false, true, true, false)), (String ((Ascii (false, false, true, true,
    false, true, true, false)), (String ((Ascii (true, true, true, true,
    true, false, true, false)), (String ((Ascii (true, true, true, true,
    true, false, true, false)), EmptyString)))))))))))))))) :: ((String
    ((Ascii (true, true, true, true, true, false, true, false)), (String
    ((Ascii (true, true, true, true, true, false, true, false)), (String
    ((Ascii (true, true, false, false, false, true, true, false)), (String
    ((Ascii (true, false, true, false, false, true, true, false)), (String
    ((Ascii (true, false, false, true, false, true, true, false)), (String
    ((Ascii (false, false, true, true, false, true, true, false)), (String
    ((Ascii (true, true, true, true, true, false, true, false)), (String
    ((Ascii (true, true, true, true, true, false, true, false)),
    EmptyString)))))))))))))))) :: ((String ((Ascii (true, true, true, true,
    true, false, true, false)), (String ((Ascii (true, true, true, true,
    true, false, true, false)), (String ((Ascii (true, true, false, false,
    false, true, true, false)), (String ((Ascii (false, false, true, true,
    false, true, true, false)), (String ((Ascii (true, false, false, false,
    false, true, true, false)), (String ((Ascii (true, true, false, false,
    true, true, true, false)), (String ((Ascii (true, true, false, false,
    true, true, true, false)), (String ((Ascii (true, true, true, true, true,
    false, true, false)), (String ((Ascii (true, true, true, true, true,
    false, true, false)), EmptyString)))))))))))))))))) :: ((String ((Ascii
    (true, true, true, true, true, false, true, false)), (String ((Ascii
    (true, true, true, true, true, false, true, false)), (String ((Ascii
    (true, true, false, false, false, true, true, false)), (String ((Ascii
    (true, true, true, true, false, true, true, false)), (String ((Ascii
    (false, true, true, true, false, true, true, false)), (String ((Ascii
    (false, false, true, false, true, true, true, false)), (String ((Ascii
    (true, false, false, false, false, true, true, false)), (String ((Ascii
    (true, false, false, true, false, true, true, false)), (String ((Ascii
    (false, true, true, true, false, true, true, false)), (String ((Ascii
    (true, true, false, false, true, true, true, false)), (String ((Ascii
    (true, true, true, true, true, false, true, false)), (String ((Ascii
    (true, true, true, true, true, false, true, false)),
    EmptyString)))))))))))))))))))))))) :: ((String ((Ascii (true, true,
    true, true, true, false, true, false)), (String ((Ascii (true, true,
    true, true, true, false, true, false)), (String ((Ascii (false, false,
    true, false, false, true, true, false)), (String ((Ascii (true, false,
    true, false, false, true, true, false)), (String ((Ascii (false, false,
    true, true, false, true, true, false)), (String ((Ascii (true, false,
    false, false, false, true, true, false)), (String ((Ascii (false, false,
    true, false, true, true, true, false)), (String ((Ascii (false, false,
    true, false, true, true, true, false)), (String ((Ascii (false, true,
    false, false, true, true, true, false)), (String ((Ascii (true, true,
    true, true, true, false, true, false)), (String ((Ascii (true, true,
    true, true, true, false, true, false)),
    EmptyString)))))))))))))))))))))) :: ((String ((Ascii (true, true, true,
    true, true, false, true, false)), (String ((Ascii (true, true, true,
    true, true, false, true, false)), (String ((Ascii (false, false, true,
    false, false, true, true, false)), (String ((Ascii (true, false, false,
    true, false, true, true, false)), (String ((Ascii (false, true, false,
    false, true, true, true, false)), (String ((Ascii (true, true, true,
    true, true, false, true, false)), (String ((Ascii (true, true, true,
    true, true, false, true, false)), EmptyString)))))))))))))) :: ((String
    ((Ascii (true, true, true, true, true, false, true, false)), (String
    ((Ascii (true, true, true, true, true, false, true, false)), (String
    ((Ascii (false, false, true, false, false, true, true, false)), (String
    ((Ascii (true, false, false, true, false, true, true, false)), (String
    ((Ascii (false, true, true, false, true, true, true, false)), (String
    ((Ascii (true, false, true, true, false, true, true, false)), (String
    ((Ascii (true, true, true, true, false, true, true, false)), (String
    ((Ascii (false, false, true, false, false, true, true, false)), (String
    ((Ascii (true, true, true, true, true, false, true, false)), (String
    ((Ascii (true, true, true, true, true, false, true, false)),
    EmptyString)))))))))))))))))))) :: ((String ((Ascii (true, true, true,
    true, true, false, true, false)), (String ((Ascii (true, true, true,
    true, true, false, true, false)), (String ((Ascii (false, false, true,
    false, false, true, true, false)), (String ((Ascii (true, true, true,
    true, false, true, true, false)), (String ((Ascii (true, true, false,
    false, false, true, true, false)), (String ((Ascii (true, true, true,
    true, true, false, true, false)), (String ((Ascii (true, true, true,
    true, true, false, true, false)), EmptyString)))))))))))))) :: ((String
    ((Ascii (true, true, true, true, true, false, true, false)), (String
    ((Ascii (true, true, true, true, true, false, true, false)), (String
    ((Ascii (true, false, true, false, false, true, true, false)), (String
    ((Ascii (true, false, false, false, true, true, true, false)), (String
    ((Ascii (true, true, true, true, true, false, true, false)), (String
    ((Ascii (true, true, true, true, true, false, true, false)),
    EmptyString)))))))))))) :: ((String ((Ascii (true, true, true, true,
    true, false, true, false)), (String ((Ascii (true, true, true, true,
    true, false, true, false)), (String ((Ascii (false, true, true, false,
    false, true, true, false)), (String ((Ascii (false, false, true, true,
    false, true, true, false)), (String ((Ascii (true, true, true, true,
    false, true, true, false)), (String ((Ascii (true, false, false, false,
    false, true, true, false)), (String ((Ascii (false, false, true, false,
    true, true, true, false)), (String ((Ascii (true, true, true, true, true,
    false, true, false)), (String ((Ascii (true, true, true, true, true,
    false, true, false)), EmptyString)))))))))))))))))) :: ((String ((Ascii
    (true, true, true, true, true, false, true, false)), (String ((Ascii
    (true, true, true, true, true, false, true, false)), (String ((Ascii
    (false, true, true, false, false, true, true, false)), (String ((Ascii
    (false, false, true, true, false, true, true, false)), (String ((Ascii
    (true, true, true, true, false, true, true, false)), (String ((Ascii
    (true, true, true, true, false, true, true, false)), (String ((Ascii
    (false, true, false, false, true, true, true, false)), (String ((Ascii
    (true, true, true, true, true, false, true, false)), (String ((Ascii
    (true, true, true, true, true, false, true, false)),
    EmptyString)))))))))))))))))) :: ((String ((Ascii (true, true, true,
    true, true, false, true, false)), (String ((Ascii (true, true, true,
    true, true, false, true, false)), (String ((Ascii (false, true, true,
    false, false, true, true, false)), (String ((Ascii (false, false, true,
    true, false, true, true, false)), (String ((Ascii (true, true, true,
    true, false, true, true, false)), (String ((Ascii (true, true, true,
    true, false, true, true, false)), (String ((Ascii (false, true, false,
    false, true, true, true, false)), (String ((Ascii (false, false, true,
    false, false, true, true, false)), (String ((Ascii (true, false, false,
    true, false, true, true, false)), (String ((Ascii (false, true, true,
    false, true, true, true, false)), (String ((Ascii (true, true, true,
    true, true, false, true, false)), (String ((Ascii (true, true, true,
    true, true, false, true, false)),
    EmptyString)))))))))))))))))))))))) :: ((String ((Ascii (true, true,
    true, true, true, false, true, false)), (String ((Ascii (true, true,
    true, true, true, false, true, false)), (String ((Ascii (false, true,
    true, false, false, true, true, false)), (String ((Ascii (true, true,
    true, true, false, true, true, false)), (String ((Ascii (false, true,
    false, false, true, true, true, false)), (String ((Ascii (true, false,
    true, true, false, true, true, false)), (String ((Ascii (true, false,
    false, false, false, true, true, false)), (String ((Ascii (false, false,
    true, false, true, true, true, false)), (String ((Ascii (true, true,
    true, true, true, false, true, false)), (String ((Ascii (true, true,
    true, true, true, false, true, false)),
    EmptyString)))))))))))))))))))) :: ((String ((Ascii (true, true, true,
    true, true, false, true, false)), (String ((Ascii (true, true, true,
    true, true, false, true, false)), (String ((Ascii (true, true, true,
    false, false, true, true, false)), (String ((Ascii (true, false, true,
    false, false, true, true, false)), (String ((Ascii (true, true, true,
    true, true, false, true, false)), (String ((Ascii (true, true, true,
    true, true, false, true, false)), EmptyString)))))))))))) :: ((String
    ((Ascii (true, true, true, true, true, false, true, false)), (String
    ((Ascii (true, true, true, true, true, false, true, false)), (String
    ((Ascii (true, true, true, false, false, true, true, false)), (String
    ((Ascii (true, false, true, false, false, true, true, false)), (String
    ((Ascii (false, false, true, false, true, true, true, false)), (String
    ((Ascii (true, false, false, false, false, true, true, false)), (String
    ((Ascii (false, false, true, false, true, true, true, false)), (String
    ((Ascii (false, false, true, false, true, true, true, false)), (String
    ((Ascii (false, true, false, false, true, true, true, false)), (String
    ((Ascii (true, false, false, true, false, true, true, false)), (String
    ((Ascii (false, true, false, false, false, true, true, false)), (String
    ((Ascii (true, false, true, false, true, true, true, false)), (String
    ((Ascii (false, false, true, false, true, true, true, false)), (String
    ((Ascii (true, false, true, false, false, true, true, false)), (String
    ((Ascii (true, true, true, true, true, false, true, false)), (String
    ((Ascii (true, true, true, true, true, false, true, false)),
    EmptyString)))))))))))))))))))))))))))))))) :: ((String ((Ascii (true,
    true, true, true, true, false, true, false)), (String ((Ascii (true,
    true, true, true, true, false, true, false)), (String ((Ascii (true,
    true, true, false, false, true, true, false)), (String ((Ascii (true,
    false, true, false, false, true, true, false)), (String ((Ascii (false,
    false, true, false, true, true, true, false)), (String ((Ascii (true,
    false, false, true, false, true, true, false)), (String ((Ascii (false,
    false, true, false, true, true, true, false)), (String ((Ascii (true,
    false, true, false, false, true, true, false)), (String ((Ascii (true,
    false, true, true, false, true, true, false)), (String ((Ascii (true,
    true, true, true, true, false, true, false)), (String ((Ascii (true,
    true, true, true, true, false, true, false)),
    EmptyString)))))))))))))))))))))) :: ((String ((Ascii (true, true, true,
    true, true, false, true, false)), (String ((Ascii (true, true, true,
    true, true, false, true, false)), (String ((Ascii (true, true, true,
    false, false, true, true, false)), (String ((Ascii (true, false, true,
    false, false, true, true, false)), (String ((Ascii (false, false, true,
    false, true, true, true, false)), (String ((Ascii (false, true, true,
    true, false, true, true, false)), (String ((Ascii (true, false, true,
    false, false, true, true, false)), (String ((Ascii (true, true, true,
    false, true, true, true, false)), (String ((Ascii (true, false, false,
    false, false, true, true, false)), (String ((Ascii (false, true, false,
    false, true, true, true, false)), (String ((Ascii (true, true, true,
    false, false, true, true, false)), (String ((Ascii (true, true, false,
    false, true, true, true, false)), (String ((Ascii (true, true, true,
    true, true, false, true, false)), (String ((Ascii (true, true, true,
    true, true, false, true, false)),
    EmptyString)))))))))))))))))))))))))))) :: ((String ((Ascii (true, true,
    true, true, true, false, true, false)), (String ((Ascii (true, true,
    true, true, true, false, true, false)), (String ((Ascii (true, true,
    true, false, false, true, true, false)), (String ((Ascii (true, false,
    true, false, false, true, true, false)), (String ((Ascii (false, false,
    true, false, true, true, true, false)), (String ((Ascii (true, true,
    false, false, true, true, true, false)), (String ((Ascii (false, false,
    true, false, true, true, true, false)), (String ((Ascii (true, false,
    false, false, false, true, true, false)), (String ((Ascii (false, false,
    true, false, true, true, true, false)), (String ((Ascii (true, false,
    true, false, false, true, true, false)), (String ((Ascii (true, true,
    true, true, true, false, true, false)), (String ((Ascii (true, true,
    true, true, true, false, true, false)),
    EmptyString)))))))))))))))))))))))) :: ((String ((Ascii (true, true,
    true, true, true, false, true, false)), (String ((Ascii (true, true,
    true, true, true, false, true, false)), (String ((Ascii (true, true,
    true, false, false, true, true, false)), (String ((Ascii (false, false,
    true, false, true, true, true, false)), (String ((Ascii (true, true,
    true, true, true, false, true, false)), (String ((Ascii (true, true,
    true, true, true, false, true, false)),
    EmptyString)))))))))))) :: ((String ((Ascii (true, true, true, true,
    true, false, true, false)), (String ((Ascii (true, true, true, true,
    true, false, true, false)), (String ((Ascii (false, false, false, true,
    false, true, true, false)), (String ((Ascii (true, false, false, false,
    false, true, true, false)), (String ((Ascii (true, true, false, false,
    true, true, true, false)), (String ((Ascii (false, false, false, true,
    false, true, true, false)), (String ((Ascii (true, true, true, true,
    true, false, true, false)), (String ((Ascii (true, true, true, true,
    true, false, true, false)), EmptyString)))))))))))))))) :: ((String
    ((Ascii (true, true, true, true, true, false, true, false)), (String
    ((Ascii (true, true, true, true, true, false, true, false)), (String
    ((Ascii (true, false, false, true, false, true, true, false)), (String
    ((Ascii (false, true, true, true, false, true, true, false)), (String
    ((Ascii (false, false, true, false, false, true, true, false)), (String
    ((Ascii (true, false, true, false, false, true, true, false)), (String
    ((Ascii (false, false, false, true, true, true, true, false)), (String
    ((Ascii (true, true, true, true, true, false, true, false)), (String
    ((Ascii (true, true, true, true, true, false, true, false)),
    EmptyString)))))))))))))))))) :: ((String ((Ascii (true, true, true,
    true, true, false, true, false)), (String ((Ascii (true, true, true,
    true, true, false, true, false)), (String ((Ascii (true, false, false,
    true, false, true, true, false)), (String ((Ascii (false, true, true,
    true, false, true, true, false)), (String ((Ascii (true, false, false,
    true, false, true, true, false)), (String ((Ascii (false, false, true,
    false, true, true, true, false)), (String ((Ascii (true, true, true,
    true, true, false, true, false)), (String ((Ascii (true, true, true,
    true, true, false, true, false)), EmptyString)))))))))))))))) :: ((String
    ((Ascii (true, true, true, true, true, false, true, false)), (String
    ((Ascii (true, true, true, true, true, false, true, false)), (String
    ((Ascii (true, false, false, true, false, true, true, false)), (String
    ((Ascii (false, true, true, true, false, true, true, false)), (String
    ((Ascii (true, false, false, true, false, true, true, false)), (String
    ((Ascii (false, false, true, false, true, true, true, false)), (String
    ((Ascii (true, true, true, true, true, false, true, false)), (String
    ((Ascii (true, true, false, false, true, true, true, false)), (String
    ((Ascii (true, false, true, false, true, true, true, false)), (String
    ((Ascii (false, true, false, false, false, true, true, false)), (String
    ((Ascii (true, true, false, false, false, true, true, false)), (String
    ((Ascii (false, false, true, true, false, true, true, false)), (String
    ((Ascii (true, false, false, false, false, true, true, false)), (String
    ((Ascii (true, true, false, false, true, true, true, false)), (String
    ((Ascii (true, true, false, false, true, true, true, false)), (String
    ((Ascii (true, true, true, true, true, false, true, false)), (String
    ((Ascii (true, true, true, true, true, false, true, false)),
    EmptyString)))))))))))))))))))))))))))))))))) :: ((String ((Ascii (true,
    true, true, true, true, false, true, false)), (String ((Ascii (true,
    true, true, true, true, false, true, false)), (String ((Ascii (true,
    false, false, true, false, true, true, false)), (String ((Ascii (false,
    true, true, true, false, true, true, false)), (String ((Ascii (false,
    false, true, false, true, true, true, false)), (String ((Ascii (true,
    true, true, true, true, false, true, false)), (String ((Ascii (true,
    true, true, true, true, false, true, false)),
    EmptyString)))))))))))))) :: ((String ((Ascii (true, true, true, true,
    true, false, true, false)), (String ((Ascii (true, true, true, true,
    true, false, true, false)), (String ((Ascii (true, false, false, true,
    false, true, true, false)), (String ((Ascii (false, true, true, true,
    false, true, true, false)), (String ((Ascii (false, true, true, false,
    true, true, true, false)), (String ((Ascii (true, false, true, false,
    false, true, true, false)), (String ((Ascii (false, true, false, false,
    true, true, true, false)), (String ((Ascii (false, false, true, false,
    true, true, true, false)), (String ((Ascii (true, true, true, true, true,
    false, true, false)), (String ((Ascii (true, true, true, true, true,
    false, true, false)), EmptyString)))))))))))))))))))) :: ((String ((Ascii
    (true, true, true, true, true, false, true, false)), (String ((Ascii
    (true, true, true, true, true, false, true, false)), (String ((Ascii
    (true, false, false, true, false, true, true, false)), (String ((Ascii
    (false, false, true, false, true, true, true, false)), (String ((Ascii
    (true, false, true, false, false, true, true, false)), (String ((Ascii
    (false, true, false, false, true, true, true, false)), (String ((Ascii
    (true, true, true, true, true, false, true, false)), (String ((Ascii
    (true, true, true, true, true, false, true, false)),
    EmptyString)))))))))))))))) :: ((String ((Ascii (true, true, true, true,
    true, false, true, false)), (String ((Ascii (true, true, true, true,
    true, false, true, false)), (String ((Ascii (false, false, true, true,
    false, true, true, false)), (String ((Ascii (true, false, true, false,
    false, true, true, false)), (String ((Ascii (true, true, true, true,
    true, false, true, false)), (String ((Ascii (true, true, true, true,
    true, false, true, false)), EmptyString)))))))))))) :: ((String ((Ascii
    (true, true, true, true, true, false, true, false)), (String ((Ascii
    (true, true, true, true, true, false, true, false)), (String ((Ascii
    (false, false, true, true, false, true, true, false)), (String ((Ascii
    (true, false, true, false, false, true, true, false)), (String ((Ascii
    (false, true, true, true, false, true, true, false)), (String ((Ascii
    (true, true, true, true, true, false, true, false)), (String ((Ascii
    (true, true, true, true, true, false, true, false)),
    EmptyString)))))))))))))) :: ((String ((Ascii (true, true, true, true,
    true, false, true, false)), (String ((Ascii (true, true, true, true,
    true, false, true, false)), (String ((Ascii (false, false, true, true,
    false, true, true, false)), (String ((Ascii (true, true, false, false,
    true, true, true, false)), (String ((Ascii (false, false, false, true,
    false, true, true, false)), (String ((Ascii (true, false, false, true,
    false, true, true, false)), (String ((Ascii (false, true, true, false,
    false, true, true, false)), (String ((Ascii (false, false, true, false,
    true, true, true, false)), (String ((Ascii (true, true, true, true, true,
    false, true, false)), (String ((Ascii (true, true, true, true, true,
    false, true, false)), EmptyString)))))))))))))))))))) :: ((String ((Ascii
    (true, true, true, true, true, false, true, false)), (String ((Ascii
    (true, true, true, true, true, false, true, false)), (String ((Ascii
    (false, false, true, true, false, true, true, false)), (String ((Ascii
    (false, false, true, false, true, true, true, false)), (String ((Ascii
    (true, true, true, true, true, false, true, false)), (String ((Ascii
    (true, true, true, true, true, false, true, false)),
    EmptyString)))))))))))) :: ((String ((Ascii (true, true, true, true,
    true, false, true, false)), (String ((Ascii (true, true, true, true,
    true, false, true, false)), (String ((Ascii (true, false, true, true,
    false, true, true, false)), (String ((Ascii (true, false, true, false,
    false, true, true, false)), (String ((Ascii (true, false, true, true,
    false, true, true, false)), (String ((Ascii (false, true, false, false,
    false, true, true, false)), (String ((Ascii (true, false, true, false,
    false, true, true, false)), (String ((Ascii (false, true, false, false,
    true, true, true, false)), (String ((Ascii (true, true, false, false,
    true, true, true, false)), (String ((Ascii (true, true, true, true, true,
    false, true, false)), (String ((Ascii (true, true, true, true, true,
    false, true, false)), EmptyString)))))))))))))))))))))) :: ((String
    ((Ascii (true, true, true, true, true, false, true, false)), (String
    ((Ascii (true, true, true, true, true, false, true, false)), (String
    ((Ascii (true, false, true, true, false, true, true, false)), (String
    ((Ascii (true, true, true, true, false, true, true, false)), (String
    ((Ascii (false, false, true, false, false, true, true, false)), (String
    ((Ascii (true, true, true, true, true, false, true, false)), (String
    ((Ascii (true, true, true, true, true, false, true, false)),
    EmptyString)))))))))))))) :: ((String ((Ascii (true, true, true, true,
    true, false, true, false)), (String ((Ascii (true, true, true, true,
    true, false, true, false)), (String ((Ascii (true, false, true, true,
    false, true, true, false)), (String ((Ascii (true, true, true, true,
    false, true, true, false)), (String ((Ascii (false, false, true, false,
    false, true, true, false)), (String ((Ascii (true, false, true, false,
    true, true, true, false)), (String ((Ascii (false, false, true, true,
    false, true, true, false)), (String ((Ascii (true, false, true, false,
    false, true, true, false)), (String ((Ascii (true, true, true, true,
    true, false, true, false)), (String ((Ascii (true, true, true, true,
    true, false, true, false)), EmptyString)))))))))))))))))))) :: ((String
    ((Ascii (true, true, true, true, true, false, true, false)), (String
    ((Ascii (true, true, true, true, true, false, true, false)), (String
    ((Ascii (true, false, true, true, false, true, true, false)), (String
    ((Ascii (true, false, true, false, true, true, true, false)), (String
    ((Ascii (false, false, true, true, false, true, true, false)), (String
    ((Ascii (true, true, true, true, true, false, true, false)), (String
    ((Ascii (true, true, true, true, true, false, true, false)),
    EmptyString)))))))))))))) :: ((String ((Ascii (true, true, true, true,
    true, false, true, false)), (String ((Ascii (true, true, true, true,
    true, false, true, false)), (String ((Ascii (false, true, true, true,
    false, true, true, false)), (String ((Ascii (true, false, false, false,
    false, true, true, false)), (String ((Ascii (true, false, true, true,
    false, true, true, false)), (String ((Ascii (true, false, true, false,
    false, true, true, false)), (String ((Ascii (true, true, true, true,
    true, false, true, false)), (String ((Ascii (true, true, true, true,
    true, false, true, false)), EmptyString)))))))))))))))) :: ((String
    ((Ascii (true, true, true, true, true, false, true, false)), (String
    ((Ascii (true, true, true, true, true, false, true, false)), (String
    ((Ascii (false, true, true, true, false, true, true, false)), (String
    ((Ascii (true, false, true, false, false, true, true, false)), (String
    ((Ascii (true, true, true, true, true, false, true, false)), (String
    ((Ascii (true, true, true, true, true, false, true, false)),
    EmptyString)))))))))))) :: ((String ((Ascii (true, true, true, true,
    true, false, true, false)), (String ((Ascii (true, true, true, true,
    true, false, true, false)), (String ((Ascii (false, true, true, true,
    false, true, true, false)), (String ((Ascii (true, false, true, false,
    false, true, true, false)), (String ((Ascii (true, true, true, false,
    false, true, true, false)), (String ((Ascii (true, true, true, true,
    true, false, true, false)), (String ((Ascii (true, true, true, true,
    true, false, true, false)), EmptyString)))))))))))))) :: ((String ((Ascii
    (true, true, true, true, true, false, true, false)), (String ((Ascii
    (true, true, true, true, true, false, true, false)), (String ((Ascii
    (false, true, true, true, false, true, true, false)), (String ((Ascii
    (true, false, true, false, false, true, true, false)), (String ((Ascii
    (true, true, true, false, true, true, true, false)), (String ((Ascii
    (true, true, true, true, true, false, true, false)), (String ((Ascii
    (true, true, true, true, true, false, true, false)),
    EmptyString)))))))))))))) :: ((String ((Ascii (true, true, true, true,
    true, false, true, false)), (String ((Ascii (true, true, true, true,
    true, false, true, false)), (String ((Ascii (true, true, true, true,
    false, true, true, false)), (String ((Ascii (false, true, false, false,
    true, true, true, false)), (String ((Ascii (true, true, true, true, true,
    false, true, false)), (String ((Ascii (true, true, true, true, true,
    false, true, false)), EmptyString)))))))))))) :: ((String ((Ascii (true,
    true, true, true, true, false, true, false)), (String ((Ascii (true,
    true, true, true, true, false, true, false)), (String ((Ascii (false,
    false, false, false, true, true, true, false)), (String ((Ascii (true,
    true, true, true, false, true, true, false)), (String ((Ascii (true,
    true, false, false, true, true, true, false)), (String ((Ascii (true,
    true, true, true, true, false, true, false)), (String ((Ascii (true,
    true, true, true, true, false, true, false)),
    EmptyString)))))))))))))) :: ((String ((Ascii (true, true, true, true,
    true, false, true, false)), (String ((Ascii (true, true, true, true,
    true, false, true, false)), (String ((Ascii (false, false, false, false,
    true, true, true, false)), (String ((Ascii (true, true, true, true,
    false, true, true, false)), (String ((Ascii (true, true, true, false,
    true, true, true, false)), (String ((Ascii (true, true, true, true, true,
    false, true, false)), (String ((Ascii (true, true, true, true, true,
    false, true, false)), EmptyString)))))))))))))) :: ((String ((Ascii
    (true, true, true, true, true, false, true, false)), (String ((Ascii
    (true, true, true, true, true, false, true, false)), (String ((Ascii
    (true, false, false, false, true, true, true, false)), (String ((Ascii
    (true, false, true, false, true, true, true, false)), (String ((Ascii
    (true, false, false, false, false, true, true, false)), (String ((Ascii
    (false, false, true, true, false, true, true, false)), (String ((Ascii
    (false, true, true, true, false, true, true, false)), (String ((Ascii
    (true, false, false, false, false, true, true, false)), (String ((Ascii
    (true, false, true, true, false, true, true, false)), (String ((Ascii
    (true, false, true, false, false, true, true, false)), (String ((Ascii
    (true, true, true, true, true, false, true, false)), (String ((Ascii
    (true, true, true, true, true, false, true, false)),
    EmptyString)))))))))))))))))))))))) :: ((String ((Ascii (true, true,
    true, true, true, false, true, false)), (String ((Ascii (true, true,
    true, true, true, false, true, false)), (String ((Ascii (false, true,
    false, false, true, true, true, false)), (String ((Ascii (true, false,
    false, false, false, true, true, false)), (String ((Ascii (false, false,
    true, false, false, true, true, false)), (String ((Ascii (false, false,
    true, false, false, true, true, false)), (String ((Ascii (true, true,
    true, true, true, false, true, false)), (String ((Ascii (true, true,
    true, true, true, false, true, false)),
    EmptyString)))))))))))))))) :: ((String ((Ascii (true, true, true, true,
    true, false, true, false)), (String ((Ascii (true, true, true, true,
    true, false, true, false)), (String ((Ascii (false, true, false, false,
    true, true, true, false)), (String ((Ascii (true, false, false, false,
    false, true, true, false)), (String ((Ascii (false, true, true, true,
    false, true, true, false)), (String ((Ascii (false, false, true, false,
    false, true, true, false)), (String ((Ascii (true, true, true, true,
    true, false, true, false)), (String ((Ascii (true, true, true, true,
    true, false, true, false)), EmptyString)))))))))))))))) :: ((String
    ((Ascii (true, true, true, true, true, false, true, false)), (String
    ((Ascii (true, true, true, true, true, false, true, false)), (String
    ((Ascii (false, true, false, false, true, true, true, false)), (String
    ((Ascii (false, false, true, false, false, true, true, false)), (String
    ((Ascii (true, false, false, true, false, true, true, false)), (String
    ((Ascii (false, true, true, false, true, true, true, false)), (String
    ((Ascii (true, false, true, true, false, true, true, false)), (String
    ((Ascii (true, true, true, true, false, true, true, false)), (String
    ((Ascii (false, false, true, false, false, true, true, false)), (String
    ((Ascii (true, true, true, true, true, false, true, false)), (String
    ((Ascii (true, true, true, true, true, false, true, false)),
    EmptyString)))))))))))))))))))))) :: ((String ((Ascii (true, true, true,
    true, true, false, true, false)), (String ((Ascii (true, true, true,
    true, true, false, true, false)), (String ((Ascii (false, true, false,
    false, true, true, true, false)), (String ((Ascii (true, false, true,
    false, false, true, true, false)), (String ((Ascii (false, false, true,
    false, false, true, true, false)), (String ((Ascii (true, false, true,
    false, true, true, true, false)), (String ((Ascii (true, true, false,
    false, false, true, true, false)), (String ((Ascii (true, false, true,
    false, false, true, true, false)), (String ((Ascii (true, true, true,
    true, true, false, true, false)), (String ((Ascii (true, true, true,
    true, true, false, true, false)),
    EmptyString)))))))))))))))))))) :: ((String ((Ascii (true, true, true,
    true, true, false, true, false)), (String ((Ascii (true, true, true,
    true, true, false, true, false)), (String ((Ascii (false, true, false,
    false, true, true, true, false)), (String ((Ascii (true, false, true,
    false, false, true, true, false)), (String ((Ascii (false, false, true,
    false, false, true, true, false)), (String ((Ascii (true, false, true,
    false, true, true, true, false)), (String ((Ascii (true, true, false,
    false, false, true, true, false)), (String ((Ascii (true, false, true,
    false, false, true, true, false)), (String ((Ascii (true, true, true,
    true, true, false, true, false)), (String ((Ascii (true, false, true,
    false, false, true, true, false)), (String ((Ascii (false, false, false,
    true, true, true, true, false)), (String ((Ascii (true, true, true, true,
    true, false, true, false)), (String ((Ascii (true, true, true, true,
    true, false, true, false)),
    EmptyString)))))))))))))))))))))))))) :: ((String ((Ascii (true, true,
    true, true, true, false, true, false)), (String ((Ascii (true, true,
    true, true, true, false, true, false)), (String ((Ascii (false, true,
    false, false, true, true, true, false)), (String ((Ascii (true, false,
    true, false, false, true, true, false)), (String ((Ascii (false, false,
    false, false, true, true, true, false)), (String ((Ascii (false, true,
    false, false, true, true, true, false)), (String ((Ascii (true, true,
    true, true, true, false, true, false)), (String ((Ascii (true, true,
    true, true, true, false, true, false)),
    EmptyString)))))))))))))))) :: ((String ((Ascii (true, true, true, true,
    true, false, true, false)), (String ((Ascii (true, true, true, true,
    true, false, true, false)), (String ((Ascii (false, true, false, false,
    true, true, true, false)), (String ((Ascii (false, true, true, false,
    false, true, true, false)), (String ((Ascii (false, false, true, true,
    false, true, true, false)), (String ((Ascii (true, true, true, true,
    false, true, true, false)), (String ((Ascii (true, true, true, true,
    false, true, true, false)), (String ((Ascii (false, true, false, false,
    true, true, true, false)), (String ((Ascii (false, false, true, false,
    false, true, true, false)), (String ((Ascii (true, false, false, true,
    false, true, true, false)), (String ((Ascii (false, true, true, false,
    true, true, true, false)), (String ((Ascii (true, true, true, true, true,
    false, true, false)), (String ((Ascii (true, true, true, true, true,
    false, true, false)), EmptyString)))))))))))))))))))))))))) :: ((String
    ((Ascii (true, true, true, true, true, false, true, false)), (String
    ((Ascii (true, true, true, true, true, false, true, false)), (String
    ((Ascii (false, true, false, false, true, true, true, false)), (String
    ((Ascii (false, false, true, true, false, true, true, false)), (String
    ((Ascii (true, true, false, false, true, true, true, false)), (String
    ((Ascii (false, false, false, true, false, true, true, false)), (String
    ((Ascii (true, false, false, true, false, true, true, false)), (String
    ((Ascii (false, true, true, false, false, true, true, false)), (String
    ((Ascii (false, false, true, false, true, true, true, false)), (String
    ((Ascii (true, true, true, true, true, false, true, false)), (String
    ((Ascii (true, true, true, true, true, false, true, false)),
    EmptyString)))))))))))))))))))))) :: ((String ((Ascii (true, true, true,
    true, true, false, true, false)), (String ((Ascii (true, true, true,
    true, true, false, true, false)), (String ((Ascii (false, true, false,
    false, true, true, true, false)), (String ((Ascii (true, false, true,
    true, false, true, true, false)), (String ((Ascii (true, true, true,
    true, false, true, true, false)), (String ((Ascii (false, false, true,
    false, false, true, true, false)), (String ((Ascii (true, true, true,
    true, true, false, true, false)), (String ((Ascii (true, true, true,
    true, true, false, true, false)), EmptyString)))))))))))))))) :: ((String
    ((Ascii (true, true, true, true, true, false, true, false)), (String
    ((Ascii (true, true, true, true, true, false, true, false)), (String
    ((Ascii (false, true, false, false, true, true, true, false)), (String
    ((Ascii (true, false, true, true, false, true, true, false)), (String
    ((Ascii (true, false, true, false, true, true, true, false)), (String
    ((Ascii (false, false, true, true, false, true, true, false)), (String
    ((Ascii (true, true, true, true, true, false, true, false)), (String
    ((Ascii (true, true, true, true, true, false, true, false)),
    EmptyString)))))))))))))))) :: ((String ((Ascii (true, true, true, true,
    true, false, true, false)), (String ((Ascii (true, true, true, true,
    true, false, true, false)), (String ((Ascii (false, true, false, false,
    true, true, true, false)), (String ((Ascii (true, true, true, true,
    false, true, true, false)), (String ((Ascii (false, true, false, false,
    true, true, true, false)), (String ((Ascii (true, true, true, true, true,
    false, true, false)), (String ((Ascii (true, true, true, true, true,
    false, true, false)), EmptyString)))))))))))))) :: ((String ((Ascii
    (true, true, true, true, true, false, true, false)), (String ((Ascii
    (true, true, true, true, true, false, true, false)), (String ((Ascii
    (false, true, false, false, true, true, true, false)), (String ((Ascii
    (true, true, true, true, false, true, true, false)), (String ((Ascii
    (true, false, true, false, true, true, true, false)), (String ((Ascii
    (false, true, true, true, false, true, true, false)), (String ((Ascii
    (false, false, true, false, false, true, true, false)), (String ((Ascii
    (true, true, true, true, true, false, true, false)), (String ((Ascii
    (true, true, true, true, true, false, true, false)),
    EmptyString)))))))))))))))))) :: ((String ((Ascii (true, true, true,
    true, true, false, true, false)), (String ((Ascii (true, true, true,
    true, true, false, true, false)), (String ((Ascii (false, true, false,
    false, true, true, true, false)), (String ((Ascii (false, false, false,
    false, true, true, true, false)), (String ((Ascii (true, true, true,
    true, false, true, true, false)), (String ((Ascii (true, true, true,
    false, true, true, true, false)), (String ((Ascii (true, true, true,
    true, true, false, true, false)), (String ((Ascii (true, true, true,
    true, true, false, true, false)), EmptyString)))))))))))))))) :: ((String
    ((Ascii (true, true, true, true, true, false, true, false)), (String
    ((Ascii (true, true, true, true, true, false, true, false)), (String
    ((Ascii (false, true, false, false, true, true, true, false)), (String
    ((Ascii (false, true, false, false, true, true, true, false)), (String
    ((Ascii (true, true, false, false, true, true, true, false)), (String
    ((Ascii (false, false, false, true, false, true, true, false)), (String
    ((Ascii (true, false, false, true, false, true, true, false)), (String
    ((Ascii (false, true, true, false, false, true, true, false)), (String
    ((Ascii (false, false, true, false, true, true, true, false)), (String
    ((Ascii (true, true, true, true, true, false, true, false)), (String
    ((Ascii (true, true, true, true, true, false, true, false)),
    EmptyString)))))))))))))))))))))) :: ((String ((Ascii (true, true, true,
    true, true, false, true, false)), (String ((Ascii (true, true, true,
    true, true, false, true, false)), (String ((Ascii (false, true, false,
    false, true, true, true, false)), (String ((Ascii (true, true, false,
    false, true, true, true, false)), (String ((Ascii (false, false, false,
    true, false, true, true, false)), (String ((Ascii (true, false, false,
    true, false, true, true, false)), (String ((Ascii (false, true, true,
    false, false, true, true, false)), (String ((Ascii (false, false, true,
    false, true, true, true, false)), (String ((Ascii (true, true, true,
    true, true, false, true, false)), (String ((Ascii (true, true, true,
    true, true, false, true, false)),
    EmptyString)))))))))))))))))))) :: ((String ((Ascii (true, true, true,
    true, true, false, true, false)), (String ((Ascii (true, true, true,
    true, true, false, true, false)), (String ((Ascii (false, true, false,
    false, true, true, true, false)), (String ((Ascii (true, true, false,
    false, true, true, true, false)), (String ((Ascii (true, false, true,
    false, true, true, true, false)), (String ((Ascii (false, true, false,
    false, false, true, true, false)), (String ((Ascii (true, true, true,
    true, true, false, true, false)), (String ((Ascii (true, true, true,
    true, true, false, true, false)), EmptyString)))))))))))))))) :: ((String
    ((Ascii (true, true, true, true, true, false, true, false)), (String
    ((Ascii (true, true, true, true, true, false, true, false)), (String
    ((Ascii (false, true, false, false, true, true, true, false)), (String
    ((Ascii (false, false, true, false, true, true, true, false)), (String
    ((Ascii (false, true, false, false, true, true, true, false)), (String
    ((Ascii (true, false, true, false, true, true, true, false)), (String
    ((Ascii (true, false, true, false, false, true, true, false)), (String
    ((Ascii (false, false, true, false, false, true, true, false)), (String
    ((Ascii (true, false, false, true, false, true, true, false)), (String
    ((Ascii (false, true, true, false, true, true, true, false)), (String
    ((Ascii (true, true, true, true, true, false, true, false)), (String
    ((Ascii (true, true, true, true, true, false, true, false)),
    EmptyString)))))))))))))))))))))))) :: ((String ((Ascii (true, true,
    true, true, true, false, true, false)), (String ((Ascii (true, true,
    true, true, true, false, true, false)), (String ((Ascii (false, true,
    false, false, true, true, true, false)), (String ((Ascii (false, false,
    false, true, true, true, true, false)), (String ((Ascii (true, true,
    true, true, false, true, true, false)), (String ((Ascii (false, true,
    false, false, true, true, true, false)), (String ((Ascii (true, true,
    true, true, true, false, true, false)), (String ((Ascii (true, true,
    true, true, true, false, true, false)),
    EmptyString)))))))))))))))) :: ((String ((Ascii (true, true, true, true,
    true, false, true, false)), (String ((Ascii (true, true, true, true,
    true, false, true, false)), (String ((Ascii (true, true, false, false,
    true, true, true, false)), (String ((Ascii (true, false, true, false,
    false, true, true, false)), (String ((Ascii (false, false, true, false,
    true, true, true, false)), (String ((Ascii (true, false, false, false,
    false, true, true, false)), (String ((Ascii (false, false, true, false,
    true, true, true, false)), (String ((Ascii (false, false, true, false,
    true, true, true, false)), (String ((Ascii (false, true, false, false,
    true, true, true, false)), (String ((Ascii (true, true, true, true, true,
    false, true, false)), (String ((Ascii (true, true, true, true, true,
    false, true, false)), EmptyString)))))))))))))))))))))) :: ((String
    ((Ascii (true, true, true, true, true, false, true, false)), (String
    ((Ascii (true, true, true, true, true, false, true, false)), (String
    ((Ascii (true, true, false, false, true, true, true, false)), (String
    ((Ascii (true, false, false, true, false, true, true, false)), (String
    ((Ascii (false, true, false, true, true, true, true, false)), (String
    ((Ascii (true, false, true, false, false, true, true, false)), (String
    ((Ascii (true, true, true, true, false, true, true, false)), (String
    ((Ascii (false, true, true, false, false, true, true, false)), (String
    ((Ascii (true, true, true, true, true, false, true, false)), (String
    ((Ascii (true, true, true, true, true, false, true, false)),
    EmptyString)))))))))))))))))))) :: ((String ((Ascii (true, true, true,
    true, true, false, true, false)), (String ((Ascii (true, true, true,
    true, true, false, true, false)), (String ((Ascii (true, true, false,
    false, true, true, true, false)), (String ((Ascii (false, false, true,
    false, true, true, true, false)), (String ((Ascii (false, true, false,
    false, true, true, true, false)), (String ((Ascii (true, true, true,
    true, true, false, true, false)), (String ((Ascii (true, true, true,
    true, true, false, true, false)), EmptyString)))))))))))))) :: ((String
    ((Ascii (true, true, true, true, true, false, true, false)), (String
    ((Ascii (true, true, true, true, true, false, true, false)), (String
    ((Ascii (true, true, false, false, true, true, true, false)), (String
    ((Ascii (true, false, true, false, true, true, true, false)), (String
    ((Ascii (false, true, false, false, false, true, true, false)), (String
    ((Ascii (true, true, true, true, true, false, true, false)), (String
    ((Ascii (true, true, true, true, true, false, true, false)),
    EmptyString)))))))))))))) :: ((String ((Ascii (true, true, true, true,
    true, false, true, false)), (String ((Ascii (true, true, true, true,
    true, false, true, false)), (String ((Ascii (true, true, false, false,
    true, true, true, false)), (String ((Ascii (true, false, true, false,
    true, true, true, false)), (String ((Ascii (false, true, false, false,
    false, true, true, false)), (String ((Ascii (true, true, false, false,
    false, true, true, false)), (String ((Ascii (false, false, true, true,
    false, true, true, false)), (String ((Ascii (true, false, false, false,
    false, true, true, false)), (String ((Ascii (true, true, false, false,
    true, true, true, false)), (String ((Ascii (true, true, false, false,
    true, true, true, false)), (String ((Ascii (false, false, false, true,
    false, true, true, false)), (String ((Ascii (true, true, true, true,
    false, true, true, false)), (String ((Ascii (true, true, true, true,
    false, true, true, false)), (String ((Ascii (true, true, false, true,
    false, true, true, false)), (String ((Ascii (true, true, true, true,
    true, false, true, false)), (String ((Ascii (true, true, true, true,
    true, false, true, false)),
    EmptyString)))))))))))))))))))))))))))))))) :: ((String ((Ascii (true,
    true, true, true, true, false, true, false)), (String ((Ascii (true,
    true, true, true, true, false, true, false)), (String ((Ascii (false,
    false, true, false, true, true, true, false)), (String ((Ascii (false,
    true, false, false, true, true, true, false)), (String ((Ascii (true,
    false, true, false, true, true, true, false)), (String ((Ascii (true,
    false, true, false, false, true, true, false)), (String ((Ascii (false,
    false, true, false, false, true, true, false)), (String ((Ascii (true,
    false, false, true, false, true, true, false)), (String ((Ascii (false,
    true, true, false, true, true, true, false)), (String ((Ascii (true,
    true, true, true, true, false, true, false)), (String ((Ascii (true,
    true, true, true, true, false, true, false)),
    EmptyString)))))))))))))))))))))) :: ((String ((Ascii (true, true, true,
    true, true, false, true, false)), (String ((Ascii (true, true, true,
    true, true, false, true, false)), (String ((Ascii (false, false, true,
    false, true, true, true, false)), (String ((Ascii (false, true, false,
    false, true, true, true, false)), (String ((Ascii (true, false, true,
    false, true, true, true, false)), (String ((Ascii (false, true, true,
    true, false, true, true, false)), (String ((Ascii (true, true, false,
    false, false, true, true, false)), (String ((Ascii (true, true, true,
    true, true, false, true, false)), (String ((Ascii (true, true, true,
    true, true, false, true, false)),
    EmptyString)))))))))))))))))) :: ((String ((Ascii (true, true, true,
    true, true, false, true, false)), (String ((Ascii (true, true, true,
    true, true, false, true, false)), (String ((Ascii (false, false, false,
    true, true, true, true, false)), (String ((Ascii (true, true, true, true,
    false, true, true, false)), (String ((Ascii (false, true, false, false,
    true, true, true, false)), (String ((Ascii (true, true, true, true, true,
    false, true, false)), (String ((Ascii (true, true, true, true, true,
    false, true, false)), EmptyString)))))))))))))) :: ((String ((Ascii
    (true, false, false, false, false, true, true, false)), (String ((Ascii
    (true, true, false, false, true, true, true, false)), (String ((Ascii
    (true, true, true, true, true, false, true, false)), (String ((Ascii
    (true, false, false, true, false, true, true, false)), (String ((Ascii
    (false, true, true, true, false, true, true, false)), (String ((Ascii
    (false, false, true, false, true, true, true, false)), (String ((Ascii
    (true, false, true, false, false, true, true, false)), (String ((Ascii
    (true, true, true, false, false, true, true, false)), (String ((Ascii
    (true, false, true, false, false, true, true, false)), (String ((Ascii
    (false, true, false, false, true, true, true, false)), (String ((Ascii
    (true, true, true, true, true, false, true, false)), (String ((Ascii
    (false, true, false, false, true, true, true, false)), (String ((Ascii
    (true, false, false, false, false, true, true, false)), (String ((Ascii
    (false, false, true, false, true, true, true, false)), (String ((Ascii
    (true, false, false, true, false, true, true, false)), (String ((Ascii
    (true, true, true, true, false, true, true, false)),
    EmptyString)))))))))))))))))))))))))))))))) :: ((String ((Ascii (false,
    true, false, false, false, true, true, false)), (String ((Ascii (true,
    false, false, true, false, true, true, false)), (String ((Ascii (false,
    false, true, false, true, true, true, false)), (String ((Ascii (true,
    true, true, true, true, false, true, false)), (String ((Ascii (true,
    true, false, false, false, true, true, false)), (String ((Ascii (true,
    true, true, true, false, true, true, false)), (String ((Ascii (true,
    false, true, false, true, true, true, false)), (String ((Ascii (false,
    true, true, true, false, true, true, false)), (String ((Ascii (false,
    false, true, false, true, true, true, false)),
    EmptyString)))))))))))))))))) :: ((String ((Ascii (false, true, false,
    false, false, true, true, false)), (String ((Ascii (true, false, false,
    true, false, true, true, false)), (String ((Ascii (false, false, true,
    false, true, true, true, false)), (String ((Ascii (true, true, true,
    true, true, false, true, false)), (String ((Ascii (false, false, true,
    true, false, true, true, false)), (String ((Ascii (true, false, true,
    false, false, true, true, false)), (String ((Ascii (false, true, true,
    true, false, true, true, false)), (String ((Ascii (true, true, true,
    false, false, true, true, false)), (String ((Ascii (false, false, true,
    false, true, true, true, false)), (String ((Ascii (false, false, false,
    true, false, true, true, false)),
    EmptyString)))))))))))))))))))) :: ((String ((Ascii (true, true, false,
    false, false, true, true, false)), (String ((Ascii (true, true, true,
    true, false, true, true, false)), (String ((Ascii (false, true, true,
    true, false, true, true, false)), (String ((Ascii (false, true, false,
    true, false, true, true, false)), (String ((Ascii (true, false, true,
    false, true, true, true, false)), (String ((Ascii (true, true, true,
    false, false, true, true, false)), (String ((Ascii (true, false, false,
    false, false, true, true, false)), (String ((Ascii (false, false, true,
    false, true, true, true, false)), (String ((Ascii (true, false, true,
    false, false, true, true, false)),
    EmptyString)))))))))))))))))) :: ((String ((Ascii (false, false, true,
    false, false, true, true, false)), (String ((Ascii (true, false, true,
    false, false, true, true, false)), (String ((Ascii (false, true, true,
    true, false, true, true, false)), (String ((Ascii (true, true, true,
    true, false, true, true, false)), (String ((Ascii (true, false, true,
    true, false, true, true, false)), (String ((Ascii (true, false, false,
    true, false, true, true, false)), (String ((Ascii (false, true, true,
    true, false, true, true, false)), (String ((Ascii (true, false, false,
    false, false, true, true, false)), (String ((Ascii (false, false, true,
    false, true, true, true, false)), (String ((Ascii (true, true, true,
    true, false, true, true, false)), (String ((Ascii (false, true, false,
    false, true, true, true, false)),
    EmptyString)))))))))))))))))))))) :: ((String ((Ascii (false, true, true,
    false, false, true, true, false)), (String ((Ascii (false, true, false,
    false, true, true, true, false)), (String ((Ascii (true, true, true,
    true, false, true, true, false)), (String ((Ascii (true, false, true,
    true, false, true, true, false)), (String ((Ascii (true, true, true,
    true, true, false, true, false)), (String ((Ascii (false, true, false,
    false, false, true, true, false)), (String ((Ascii (true, false, false,
    true, true, true, true, false)), (String ((Ascii (false, false, true,
    false, true, true, true, false)), (String ((Ascii (true, false, true,
    false, false, true, true, false)), (String ((Ascii (true, true, false,
    false, true, true, true, false)),
    EmptyString)))))))))))))))))))) :: ((String ((Ascii (true, false, false,
    true, false, true, true, false)), (String ((Ascii (true, false, true,
    true, false, true, true, false)), (String ((Ascii (true, false, false,
    false, false, true, true, false)), (String ((Ascii (true, true, true,
    false, false, true, true, false)), EmptyString)))))))) :: ((String
    ((Ascii (true, false, false, true, false, true, true, false)), (String
    ((Ascii (true, true, false, false, true, true, true, false)), (String
    ((Ascii (true, true, true, true, true, false, true, false)), (String
    ((Ascii (true, false, false, true, false, true, true, false)), (String
    ((Ascii (false, true, true, true, false, true, true, false)), (String
    ((Ascii (false, false, true, false, true, true, true, false)), (String
    ((Ascii (true, false, true, false, false, true, true, false)), (String
    ((Ascii (true, true, true, false, false, true, true, false)), (String
    ((Ascii (true, false, true, false, false, true, true, false)), (String
    ((Ascii (false, true, false, false, true, true, true, false)),
    EmptyString)))))))))))))))))))) :: ((String ((Ascii (false, true, true,
    true, false, true, true, false)), (String ((Ascii (true, false, true,
    false, true, true, true, false)), (String ((Ascii (true, false, true,
    true, false, true, true, false)), (String ((Ascii (true, false, true,
    false, false, true, true, false)), (String ((Ascii (false, true, false,
    false, true, true, true, false)), (String ((Ascii (true, false, false,
    false, false, true, true, false)), (String ((Ascii (false, false, true,
    false, true, true, true, false)), (String ((Ascii (true, true, true,
    true, false, true, true, false)), (String ((Ascii (false, true, false,
    false, true, true, true, false)),
    EmptyString)))))))))))))))))) :: ((String ((Ascii (false, true, false,
    false, true, true, true, false)), (String ((Ascii (true, false, true,
    false, false, true, true, false)), (String ((Ascii (true, false, false,
    false, false, true, true, false)), (String ((Ascii (false, false, true,
    true, false, true, true, false)), EmptyString)))))))) :: ((String ((Ascii
    (false, false, true, false, true, true, true, false)), (String ((Ascii
    (true, true, true, true, false, true, true, false)), (String ((Ascii
    (true, true, true, true, true, false, true, false)), (String ((Ascii
    (false, true, false, false, false, true, true, false)), (String ((Ascii
    (true, false, false, true, true, true, true, false)), (String ((Ascii
    (false, false, true, false, true, true, true, false)), (String ((Ascii
    (true, false, true, false, false, true, true, false)), (String ((Ascii
    (true, true, false, false, true, true, true, false)),
    EmptyString)))))))))))))))) :: [])))))))))))))))))))))))))))))))))))))))))))))))))))))))))))))))))))))))))))))))))

(** val enum_tables : (string * (string * z) list) list **)

let enum_tables =
  ((String ((Ascii (false, true, true, false, false, true, true, false)),
    (String ((Ascii (true, false, true, false, true, true, true, false)),
    (String ((Ascii (true, true, false, false, true, true, true, false)),
    (String ((Ascii (true, false, false, true, false, true, true, false)),
    (String ((Ascii (true, true, true, true, false, true, true, false)),
    (String ((Ascii (false, true, true, true, false, true, true, false)),
    (String ((Ascii (true, true, true, true, true, false, true, false)),
    (String ((Ascii (true, false, true, false, false, true, true, false)),
    (String ((Ascii (false, true, true, true, false, true, true, false)),
    (String ((Ascii (true, true, true, false, false, true, true, false)),
    (String ((Ascii (true, false, false, true, false, true, true, false)),
    (String ((Ascii (false, true, true, true, false, true, true, false)),
    (String ((Ascii (true, false, true, false, false, true, true, false)),
    (String ((Ascii (true, true, true, true, true, false, true, false)),
    (String ((Ascii (true, true, false, false, false, true, true, false)),
    (String ((Ascii (false, false, true, true, false, true, true, false)),
    (String ((Ascii (true, false, false, true, false, true, true, false)),
    (String ((Ascii (true, false, true, false, false, true, true, false)),
    (String ((Ascii (false, true, true, true, false, true, true, false)),
    (String ((Ascii (false, false, true, false, true, true, true, false)),
    (String ((Ascii (false, true, true, true, false, true, false, false)),
    (String ((Ascii (true, false, false, false, false, true, true, false)),
    (String ((Ascii (false, true, true, true, false, true, true, false)),
    (String ((Ascii (true, false, false, false, false, true, true, false)),
    (String ((Ascii (false, false, true, true, false, true, true, false)),
    (String ((Ascii (true, false, false, true, true, true, true, false)),
    (String ((Ascii (true, true, false, false, true, true, true, false)),
    (String ((Ascii (true, false, false, true, false, true, true, false)),
    (String ((Ascii (true, true, false, false, true, true, true, false)),
    (String ((Ascii (false, true, true, true, false, true, false, false)),
    (String ((Ascii (false, false, true, false, false, true, true, false)),
    (String ((Ascii (true, false, false, false, false, true, true, false)),
    (String ((Ascii (false, false, true, false, true, true, true, false)),
    (String ((Ascii (true, false, false, false, false, true, true, false)),
    (String ((Ascii (true, true, true, true, true, false, true, false)),
    (String ((Ascii (false, false, true, true, false, true, true, false)),
    (String ((Ascii (true, true, true, true, false, true, true, false)),
    (String ((Ascii (true, false, false, false, false, true, true, false)),
    (String ((Ascii (false, false, true, false, false, true, true, false)),
    (String ((Ascii (true, false, true, false, false, true, true, false)),
    (String ((Ascii (false, true, false, false, true, true, true, false)),
    (String ((Ascii (false, true, false, true, true, true, false, false)),
    (String ((Ascii (false, false, true, false, true, false, true, false)),
    (String ((Ascii (true, false, false, true, false, true, true, false)),
    (String ((Ascii (true, false, true, true, false, true, true, false)),
    (String ((Ascii (true, false, true, false, false, true, true, false)),
    (String ((Ascii (true, false, false, false, false, false, true, false)),
    (String ((Ascii (false, false, true, true, false, true, true, false)),
    (String ((Ascii (true, false, false, true, false, true, true, false)),
    (String ((Ascii (true, true, true, false, false, true, true, false)),
    (String ((Ascii (false, true, true, true, false, true, true, false)),
    (String ((Ascii (true, false, true, true, false, true, true, false)),
    (String ((Ascii (true, false, true, false, false, true, true, false)),
    (String ((Ascii (false, true, true, true, false, true, true, false)),
    (String ((Ascii (false, false, true, false, true, true, true, false)),
    (String ((Ascii (true, false, true, true, false, false, true, false)),
    (String ((Ascii (true, true, true, true, false, true, true, false)),
    (String ((Ascii (false, false, true, false, false, true, true, false)),
    (String ((Ascii (true, false, true, false, false, true, true, false)),
    EmptyString)))))))))))))))))))))))))))))))))))))))))))))))))))))))))))))))))))))))))))))))))))))))))))))))))))))))))))))))))))))),
    (((String ((Ascii (false, true, true, true, false, false, true, false)),
    (String ((Ascii (true, true, true, true, false, false, true, false)),
    (String ((Ascii (false, true, true, true, false, false, true, false)),
    (String ((Ascii (true, false, true, false, false, false, true, false)),
    EmptyString)))))))), Z0) :: (((String ((Ascii (false, false, true, false,
    false, false, true, false)), (String ((Ascii (false, true, false, false,
    true, false, true, false)), (String ((Ascii (true, true, true, true,
    false, false, true, false)), (String ((Ascii (false, false, false, false,
    true, false, true, false)), EmptyString)))))))), (Zpos XH)) :: (((String
    ((Ascii (true, false, false, true, false, false, true, false)), (String
    ((Ascii (false, true, true, true, false, false, true, false)), (String
    ((Ascii (true, true, false, false, true, false, true, false)), (String
    ((Ascii (true, false, true, false, false, false, true, false)), (String
    ((Ascii (false, true, false, false, true, false, true, false)), (String
    ((Ascii (false, false, true, false, true, false, true, false)),
    EmptyString)))))))))))), (Zpos (XO XH))) :: [])))) :: (((String ((Ascii
    (false, true, true, false, false, true, true, false)), (String ((Ascii
    (true, false, true, false, true, true, true, false)), (String ((Ascii
    (true, true, false, false, true, true, true, false)), (String ((Ascii
    (true, false, false, true, false, true, true, false)), (String ((Ascii
    (true, true, true, true, false, true, true, false)), (String ((Ascii
    (false, true, true, true, false, true, true, false)), (String ((Ascii
    (true, true, true, true, true, false, true, false)), (String ((Ascii
    (true, false, true, false, false, true, true, false)), (String ((Ascii
    (false, true, true, true, false, true, true, false)), (String ((Ascii
    (true, true, true, false, false, true, true, false)), (String ((Ascii
    (true, false, false, true, false, true, true, false)), (String ((Ascii
    (false, true, true, true, false, true, true, false)), (String ((Ascii
    (true, false, true, false, false, true, true, false)), (String ((Ascii
    (true, true, true, true, true, false, true, false)), (String ((Ascii
    (true, true, false, false, false, true, true, false)), (String ((Ascii
    (false, false, true, true, false, true, true, false)), (String ((Ascii
    (true, false, false, true, false, true, true, false)), (String ((Ascii
    (true, false, true, false, false, true, true, false)), (String ((Ascii
    (false, true, true, true, false, true, true, false)), (String ((Ascii
    (false, false, true, false, true, true, true, false)), (String ((Ascii
    (false, true, true, true, false, true, false, false)), (String ((Ascii
    (true, false, true, true, false, true, true, false)), (String ((Ascii
    (true, false, true, false, false, true, true, false)), (String ((Ascii
    (true, true, false, false, true, true, true, false)), (String ((Ascii
    (true, true, false, false, true, true, true, false)), (String ((Ascii
    (true, false, false, false, false, true, true, false)), (String ((Ascii
    (true, true, true, false, false, true, true, false)), (String ((Ascii
    (true, false, true, false, false, true, true, false)), (String ((Ascii
    (true, true, false, false, true, true, true, false)), (String ((Ascii
    (false, true, true, true, false, true, false, false)), (String ((Ascii
    (true, true, false, false, false, true, true, false)), (String ((Ascii
    (true, true, true, true, false, true, true, false)), (String ((Ascii
    (false, true, true, true, false, true, true, false)), (String ((Ascii
    (false, true, true, false, false, true, true, false)), (String ((Ascii
    (true, false, false, true, false, true, true, false)), (String ((Ascii
    (true, true, true, false, false, true, true, false)), (String ((Ascii
    (true, false, true, false, true, true, true, false)), (String ((Ascii
    (false, true, false, false, true, true, true, false)), (String ((Ascii
    (true, false, false, false, false, true, true, false)), (String ((Ascii
    (false, false, true, false, true, true, true, false)), (String ((Ascii
    (true, false, false, true, false, true, true, false)), (String ((Ascii
    (true, true, true, true, false, true, true, false)), (String ((Ascii
    (false, true, true, true, false, true, true, false)), (String ((Ascii
    (false, true, false, true, true, true, false, false)), (String ((Ascii
    (true, false, false, false, false, false, true, false)), (String ((Ascii
    (false, false, false, false, true, true, true, false)), (String ((Ascii
    (false, false, false, false, true, true, true, false)), (String ((Ascii
    (false, false, true, true, false, true, true, false)), (String ((Ascii
    (true, false, false, true, false, true, true, false)), (String ((Ascii
    (true, false, true, false, false, true, true, false)), (String ((Ascii
    (false, false, true, false, false, true, true, false)), (String ((Ascii
    (true, true, false, false, true, false, true, false)), (String ((Ascii
    (false, false, false, false, true, true, true, false)), (String ((Ascii
    (true, false, true, false, false, true, true, false)), (String ((Ascii
    (true, false, true, false, false, true, true, false)), (String ((Ascii
    (false, false, true, false, false, true, true, false)), (String ((Ascii
    (false, false, true, false, true, false, true, false)), (String ((Ascii
    (true, false, false, true, true, true, true, false)), (String ((Ascii
    (false, false, false, false, true, true, true, false)), (String ((Ascii
    (true, false, true, false, false, true, true, false)),
    EmptyString)))))))))))))))))))))))))))))))))))))))))))))))))))))))))))))))))))))))))))))))))))))))))))))))))))))))))))))))))))))))),
    (((String ((Ascii (false, true, true, true, false, false, true, false)),
    (String ((Ascii (true, true, true, true, false, false, true, false)),
    (String ((Ascii (false, true, true, true, false, false, true, false)),
    (String ((Ascii (true, false, true, false, false, false, true, false)),
    EmptyString)))))))), Z0) :: (((String ((Ascii (false, true, false, false,
    true, false, true, false)), (String ((Ascii (true, false, true, false,
    false, false, true, false)), (String ((Ascii (true, false, false, false,
    false, false, true, false)), (String ((Ascii (false, true, false, false,
    true, false, true, false)), (String ((Ascii (true, true, true, true,
    true, false, true, false)), (String ((Ascii (true, true, true, false,
    true, false, true, false)), (String ((Ascii (false, false, false, true,
    false, false, true, false)), (String ((Ascii (true, false, true, false,
    false, false, true, false)), (String ((Ascii (true, false, true, false,
    false, false, true, false)), (String ((Ascii (false, false, true, true,
    false, false, true, false)), (String ((Ascii (true, true, false, false,
    true, false, true, false)), EmptyString)))))))))))))))))))))), (Zpos
    XH)) :: (((String ((Ascii (false, true, true, false, false, false, true,
    false)), (String ((Ascii (false, true, false, false, true, false, true,
    false)), (String ((Ascii (true, true, true, true, false, false, true,
    false)), (String ((Ascii (false, true, true, true, false, false, true,
    false)), (String ((Ascii (false, false, true, false, true, false, true,
    false)), (String ((Ascii (true, true, true, true, true, false, true,
    false)), (String ((Ascii (true, true, true, false, true, false, true,
    false)), (String ((Ascii (false, false, false, true, false, false, true,
    false)), (String ((Ascii (true, false, true, false, false, false, true,
    false)), (String ((Ascii (true, false, true, false, false, false, true,
    false)), (String ((Ascii (false, false, true, true, false, false, true,
    false)), (String ((Ascii (true, true, false, false, true, false, true,
    false)), EmptyString)))))))))))))))))))))))), (Zpos (XO
    XH))) :: (((String ((Ascii (false, true, true, false, false, false, true,
    false)), (String ((Ascii (false, true, false, false, true, false, true,
    false)), (String ((Ascii (true, true, true, true, false, false, true,
    false)), (String ((Ascii (false, true, true, true, false, false, true,
    false)), (String ((Ascii (false, false, true, false, true, false, true,
    false)), (String ((Ascii (true, true, true, true, true, false, true,
    false)), (String ((Ascii (true, false, false, false, false, false, true,
    false)), (String ((Ascii (false, true, true, true, false, false, true,
    false)), (String ((Ascii (false, false, true, false, false, false, true,
    false)), (String ((Ascii (true, true, true, true, true, false, true,
    false)), (String ((Ascii (false, true, false, false, true, false, true,
    false)), (String ((Ascii (true, false, true, false, false, false, true,
    false)), (String ((Ascii (true, false, false, false, false, false, true,
    false)), (String ((Ascii (false, true, false, false, true, false, true,
    false)), (String ((Ascii (true, true, true, true, true, false, true,
    false)), (String ((Ascii (true, true, true, false, true, false, true,
    false)), (String ((Ascii (false, false, false, true, false, false, true,
    false)), (String ((Ascii (true, false, true, false, false, false, true,
    false)), (String ((Ascii (true, false, true, false, false, false, true,
    false)), (String ((Ascii (false, false, true, true, false, false, true,
    false)), (String ((Ascii (true, true, false, false, true, false, true,
    false)), EmptyString)))))))))))))))))))))))))))))))))))))))))), (Zpos (XI
    XH))) :: (((String ((Ascii (false, true, true, false, true, false, true,
    false)), (String ((Ascii (true, false, true, false, false, false, true,
    false)), (String ((Ascii (false, false, false, true, false, false, true,
    false)), (String ((Ascii (true, false, false, true, false, false, true,
    false)), (String ((Ascii (true, true, false, false, false, false, true,
    false)), (String ((Ascii (false, false, true, true, false, false, true,
    false)), (String ((Ascii (true, false, true, false, false, false, true,
    false)), (String ((Ascii (true, true, true, true, true, false, true,
    false)), (String ((Ascii (false, true, false, false, false, false, true,
    false)), (String ((Ascii (true, true, true, true, false, false, true,
    false)), (String ((Ascii (false, false, true, false, false, false, true,
    false)), (String ((Ascii (true, false, false, true, true, false, true,
    false)), EmptyString)))))))))))))))))))))))), (Zpos (XO (XO
    XH)))) :: [])))))) :: (((String ((Ascii (false, true, true, false, false,
    true, true, false)), (String ((Ascii (true, false, true, false, true,
    true, true, false)), (String ((Ascii (true, true, false, false, true,
    true, true, false)), (String ((Ascii (true, false, false, true, false,
    true, true, false)), (String ((Ascii (true, true, true, true, false,
    true, true, false)), (String ((Ascii (false, true, true, true, false,
    true, true, false)), (String ((Ascii (true, true, true, true, true,
    false, true, false)), (String ((Ascii (true, false, true, false, false,
    true, true, false)), (String ((Ascii (false, true, true, true, false,
    true, true, false)), (String ((Ascii (true, true, true, false, false,
    true, true, false)), (String ((Ascii (true, false, false, true, false,
    true, true, false)), (String ((Ascii (false, true, true, true, false,
    true, true, false)), (String ((Ascii (true, false, true, false, false,
    true, true, false)), (String ((Ascii (true, true, true, true, true,
    false, true, false)), (String ((Ascii (true, true, false, false, false,
    true, true, false)), (String ((Ascii (false, false, true, true, false,
    true, true, false)), (String ((Ascii (true, false, false, true, false,
    true, true, false)), (String ((Ascii (true, false, true, false, false,
    true, true, false)), (String ((Ascii (false, true, true, true, false,
    true, true, false)), (String ((Ascii (false, false, true, false, true,
    true, true, false)), (String ((Ascii (false, true, true, true, false,
    true, false, false)), (String ((Ascii (true, false, true, true, false,
    true, true, false)), (String ((Ascii (true, false, true, false, false,
    true, true, false)), (String ((Ascii (true, true, false, false, true,
    true, true, false)), (String ((Ascii (true, true, false, false, true,
    true, true, false)), (String ((Ascii (true, false, false, false, false,
    true, true, false)), (String ((Ascii (true, true, true, false, false,
    true, true, false)), (String ((Ascii (true, false, true, false, false,
    true, true, false)), (String ((Ascii (true, true, false, false, true,
    true, true, false)), (String ((Ascii (false, true, true, true, false,
    true, false, false)), (String ((Ascii (true, true, false, false, false,
    true, true, false)), (String ((Ascii (true, true, true, true, false,
    true, true, false)), (String ((Ascii (false, true, true, true, false,
    true, true, false)), (String ((Ascii (false, true, true, false, false,
    true, true, false)), (String ((Ascii (true, false, false, true, false,
    true, true, false)), (String ((Ascii (true, true, true, false, false,
    true, true, false)), (String ((Ascii (true, false, true, false, true,
    true, true, false)), (String ((Ascii (false, true, false, false, true,
    true, true, false)), (String ((Ascii (true, false, false, false, false,
    true, true, false)), (String ((Ascii (false, false, true, false, true,
    true, true, false)), (String ((Ascii (true, false, false, true, false,
    true, true, false)), (String ((Ascii (true, true, true, true, false,
    true, true, false)), (String ((Ascii (false, true, true, true, false,
    true, true, false)), (String ((Ascii (false, true, false, true, true,
    true, false, false)), (String ((Ascii (true, true, false, false, false,
    false, true, false)), (String ((Ascii (true, true, true, true, false,
    true, true, false)), (String ((Ascii (false, true, true, true, false,
    true, true, false)), (String ((Ascii (false, true, true, false, false,
    true, true, false)), (String ((Ascii (true, false, false, true, false,
    true, true, false)), (String ((Ascii (true, true, true, false, false,
    true, true, false)), (String ((Ascii (false, false, true, false, true,
    false, true, false)), (String ((Ascii (true, false, false, true, true,
    true, true, false)), (String ((Ascii (false, false, false, false, true,
    true, true, false)), (String ((Ascii (true, false, true, false, false,
    true, true, false)),
    EmptyString)))))))))))))))))))))))))))))))))))))))))))))))))))))))))))))))))))))))))))))))))))))))))))))))))))))))))))),
    (((String ((Ascii (true, false, false, true, false, false, true, false)),
    (String ((Ascii (false, true, true, true, false, false, true, false)),
    (String ((Ascii (false, true, true, false, true, false, true, false)),
    (String ((Ascii (true, false, false, false, false, false, true, false)),
    (String ((Ascii (false, false, true, true, false, false, true, false)),
    (String ((Ascii (true, false, false, true, false, false, true, false)),
    (String ((Ascii (false, false, true, false, false, false, true, false)),
    EmptyString)))))))))))))), Z0) :: (((String ((Ascii (false, false, true,
    false, false, false, true, false)), (String ((Ascii (true, false, true,
    false, false, false, true, false)), (String ((Ascii (false, true, true,
    false, true, false, true, false)), (String ((Ascii (true, false, false,
    true, false, false, true, false)), (String ((Ascii (true, true, false,
    false, false, false, true, false)), (String ((Ascii (true, false, true,
    false, false, false, true, false)), (String ((Ascii (true, true, true,
    true, true, false, true, false)), (String ((Ascii (false, false, true,
    true, false, false, true, false)), (String ((Ascii (true, false, true,
    false, false, false, true, false)), (String ((Ascii (false, true, true,
    false, true, false, true, false)), (String ((Ascii (true, false, true,
    false, false, false, true, false)), (String ((Ascii (false, true, false,
    false, true, false, true, false)), (String ((Ascii (true, true, true,
    true, true, false, true, false)), (String ((Ascii (true, false, false,
    false, false, false, true, false)), (String ((Ascii (false, true, false,
    false, true, false, true, false)), (String ((Ascii (true, false, true,
    true, false, false, true, false)),
    EmptyString)))))))))))))))))))))))))))))))), (Zpos (XO (XO (XO (XO
    XH)))))) :: (((String ((Ascii (false, false, true, false, false, false,
    true, false)), (String ((Ascii (true, false, true, false, false, false,
    true, false)), (String ((Ascii (false, true, true, false, true, false,
    true, false)), (String ((Ascii (true, false, false, true, false, false,
    true, false)), (String ((Ascii (true, true, false, false, false, false,
    true, false)), (String ((Ascii (true, false, true, false, false, false,
    true, false)), (String ((Ascii (true, true, true, true, true, false,
    true, false)), (String ((Ascii (true, true, false, false, false, false,
    true, false)), (String ((Ascii (true, true, true, true, false, false,
    true, false)), (String ((Ascii (true, false, false, false, false, false,
    true, false)), (String ((Ascii (false, true, false, false, true, false,
    true, false)), (String ((Ascii (true, true, false, false, true, false,
    true, false)), (String ((Ascii (true, false, true, false, false, false,
    true, false)), (String ((Ascii (true, true, true, true, true, false,
    true, false)), (String ((Ascii (true, true, true, true, false, false,
    true, false)), (String ((Ascii (false, true, false, false, true, false,
    true, false)), (String ((Ascii (true, false, false, true, false, false,
    true, false)), (String ((Ascii (true, false, true, false, false, false,
    true, false)), (String ((Ascii (false, true, true, true, false, false,
    true, false)), (String ((Ascii (false, false, true, false, true, false,
    true, false)), (String ((Ascii (true, false, false, false, false, false,
    true, false)), (String ((Ascii (false, false, true, false, true, false,
    true, false)), (String ((Ascii (true, false, false, true, false, false,
    true, false)), (String ((Ascii (true, true, true, true, false, false,
    true, false)), (String ((Ascii (false, true, true, true, false, false,
    true, false)),
    EmptyString)))))))))))))))))))))))))))))))))))))))))))))))))), (Zpos (XI
    (XO (XO (XO XH)))))) :: (((String ((Ascii (true, true, true, false,
    false, false, true, false)), (String ((Ascii (false, true, true, true,
    false, false, true, false)), (String ((Ascii (true, true, false, false,
    true, false, true, false)), (String ((Ascii (true, true, false, false,
    true, false, true, false)), (String ((Ascii (true, true, true, true,
    true, false, true, false)), (String ((Ascii (false, false, true, true,
    false, false, true, false)), (String ((Ascii (true, false, true, false,
    false, false, true, false)), (String ((Ascii (false, true, true, false,
    true, false, true, false)), (String ((Ascii (true, false, true, false,
    false, false, true, false)), (String ((Ascii (false, true, false, false,
    true, false, true, false)), (String ((Ascii (true, true, true, true,
    true, false, true, false)), (String ((Ascii (true, false, false, false,
    false, false, true, false)), (String ((Ascii (false, true, false, false,
    true, false, true, false)), (String ((Ascii (true, false, true, true,
    false, false, true, false)), EmptyString)))))))))))))))))))))))))))),
    (Zpos (XO (XI (XO (XO XH)))))) :: (((String ((Ascii (true, true, true,
    true, false, false, true, false)), (String ((Ascii (true, false, true,
    false, true, false, true, false)), (String ((Ascii (false, false, true,
    false, true, false, true, false)), (String ((Ascii (false, false, false,
    false, true, false, true, false)), (String ((Ascii (true, false, true,
    false, true, false, true, false)), (String ((Ascii (false, false, true,
    false, true, false, true, false)), (String ((Ascii (true, true, true,
    true, true, false, true, false)), (String ((Ascii (false, false, true,
    true, false, false, true, false)), (String ((Ascii (true, false, true,
    false, false, false, true, false)), (String ((Ascii (false, true, true,
    false, true, false, true, false)), (String ((Ascii (true, false, true,
    false, false, false, true, false)), (String ((Ascii (false, true, false,
    false, true, false, true, false)), (String ((Ascii (true, true, true,
    true, true, false, true, false)), (String ((Ascii (true, false, false,
    false, false, false, true, false)), (String ((Ascii (false, true, false,
    false, true, false, true, false)), (String ((Ascii (true, false, true,
    true, false, false, true, false)),
    EmptyString)))))))))))))))))))))))))))))))), (Zpos (XI (XI (XO (XO
    XH)))))) :: (((String ((Ascii (false, true, true, false, true, false,
    true, false)), (String ((Ascii (true, false, true, false, false, false,
    true, false)), (String ((Ascii (false, false, false, true, false, false,
    true, false)), (String ((Ascii (true, false, false, true, false, false,
    true, false)), (String ((Ascii (true, true, false, false, false, false,
    true, false)), (String ((Ascii (false, false, true, true, false, false,
    true, false)), (String ((Ascii (true, false, true, false, false, false,
    true, false)), (String ((Ascii (true, true, true, true, true, false,
    true, false)), (String ((Ascii (false, false, true, false, false, false,
    true, false)), (String ((Ascii (true, false, true, false, false, false,
    true, false)), (String ((Ascii (false, false, true, false, true, false,
    true, false)), (String ((Ascii (true, false, false, false, false, false,
    true, false)), (String ((Ascii (true, false, false, true, false, false,
    true, false)), (String ((Ascii (false, false, true, true, false, false,
    true, false)), (String ((Ascii (true, true, false, false, true, false,
    true, false)), EmptyString)))))))))))))))))))))))))))))), (Zpos (XO (XO
    (XI (XO XH)))))) :: (((String ((Ascii (true, true, true, false, true,
    false, true, false)), (String ((Ascii (false, false, false, true, false,
    false, true, false)), (String ((Ascii (true, false, true, false, false,
    false, true, false)), (String ((Ascii (true, false, true, false, false,
    false, true, false)), (String ((Ascii (false, false, true, true, false,
    false, true, false)), (String ((Ascii (true, true, true, true, true,
    false, true, false)), (String ((Ascii (true, true, false, false, false,
    false, true, false)), (String ((Ascii (true, true, true, true, false,
    false, true, false)), (String ((Ascii (false, true, true, true, false,
    false, true, false)), (String ((Ascii (false, true, true, false, false,
    false, true, false)), (String ((Ascii (true, false, false, true, false,
    false, true, false)), (String ((Ascii (true, true, true, false, false,
    false, true, false)), EmptyString)))))))))))))))))))))))), (Zpos (XI (XO
    (XI (XO XH)))))) :: (((String ((Ascii (false, false, false, true, false,
    false, true, false)), (String ((Ascii (true, false, false, false, false,
    false, true, false)), (String ((Ascii (false, true, false, false, true,
    false, true, false)), (String ((Ascii (false, false, true, false, false,
    false, true, false)), (String ((Ascii (true, true, true, false, true,
    false, true, false)), (String ((Ascii (true, false, false, false, false,
    false, true, false)), (String ((Ascii (false, true, false, false, true,
    false, true, false)), (String ((Ascii (true, false, true, false, false,
    false, true, false)), (String ((Ascii (true, true, true, true, true,
    false, true, false)), (String ((Ascii (false, false, true, false, true,
    false, true, false)), (String ((Ascii (true, false, false, true, false,
    false, true, false)), (String ((Ascii (true, true, false, false, false,
    false, true, false)), (String ((Ascii (true, true, false, true, false,
    false, true, false)), (String ((Ascii (true, true, true, true, true,
    false, true, false)), (String ((Ascii (true, true, false, false, false,
    false, true, false)), (String ((Ascii (true, true, true, true, false,
    false, true, false)), (String ((Ascii (false, true, true, true, false,
    false, true, false)), (String ((Ascii (false, true, true, false, false,
    false, true, false)), (String ((Ascii (true, false, false, true, false,
    false, true, false)), (String ((Ascii (true, true, true, false, false,
    false, true, false)),
    EmptyString)))))))))))))))))))))))))))))))))))))))), (Zpos (XO (XI (XI
    (XO XH)))))) :: (((String ((Ascii (false, false, true, false, false,
    false, true, false)), (String ((Ascii (true, false, true, false, false,
    false, true, false)), (String ((Ascii (false, false, false, false, true,
    false, true, false)), (String ((Ascii (false, true, false, false, true,
    false, true, false)), (String ((Ascii (true, false, true, false, false,
    false, true, false)), (String ((Ascii (true, true, false, false, false,
    false, true, false)), (String ((Ascii (true, false, false, false, false,
    false, true, false)), (String ((Ascii (false, false, true, false, true,
    false, true, false)), (String ((Ascii (true, false, true, false, false,
    false, true, false)), (String ((Ascii (false, false, true, false, false,
    false, true, false)), (String ((Ascii (true, true, true, true, true,
    false, true, false)), (String ((Ascii (false, false, false, true, false,
    false, true, false)), (String ((Ascii (true, false, true, false, false,
    false, true, false)), (String ((Ascii (true, false, false, false, false,
    false, true, false)), (String ((Ascii (false, false, true, false, false,
    false, true, false)), (String ((Ascii (true, false, false, true, false,
    false, true, false)), (String ((Ascii (false, true, true, true, false,
    false, true, false)), (String ((Ascii (true, true, true, false, false,
    false, true, false)), (String ((Ascii (true, true, true, true, true,
    false, true, false)), (String ((Ascii (false, true, false, false, false,
    false, true, false)), (String ((Ascii (true, false, false, true, false,
    false, true, false)), (String ((Ascii (true, false, false, false, false,
    false, true, false)), (String ((Ascii (true, true, false, false, true,
    false, true, false)),
    EmptyString)))))))))))))))))))))))))))))))))))))))))))))), (Zpos (XI (XI
    (XI (XO XH)))))) :: (((String ((Ascii (true, true, true, false, false,
    false, true, false)), (String ((Ascii (false, true, true, true, false,
    false, true, false)), (String ((Ascii (true, true, false, false, true,
    false, true, false)), (String ((Ascii (true, true, false, false, true,
    false, true, false)), (String ((Ascii (true, true, true, true, true,
    false, true, false)), (String ((Ascii (true, false, false, false, false,
    false, true, false)), (String ((Ascii (true, false, true, false, true,
    false, true, false)), (String ((Ascii (false, false, false, true, true,
    false, true, false)), (String ((Ascii (true, true, true, true, true,
    false, true, false)), (String ((Ascii (false, false, true, true, false,
    false, true, false)), (String ((Ascii (true, false, true, false, false,
    false, true, false)), (String ((Ascii (false, true, true, false, true,
    false, true, false)), (String ((Ascii (true, false, true, false, false,
    false, true, false)), (String ((Ascii (false, true, false, false, true,
    false, true, false)), (String ((Ascii (true, true, true, true, true,
    false, true, false)), (String ((Ascii (true, false, false, false, false,
    false, true, false)), (String ((Ascii (false, true, false, false, true,
    false, true, false)), (String ((Ascii (true, false, true, true, false,
    false, true, false)), EmptyString)))))))))))))))))))))))))))))))))))),
    (Zpos (XO (XO (XO (XI XH)))))) :: (((String ((Ascii (true, false, true,
    false, false, false, true, false)), (String ((Ascii (false, true, true,
    true, false, false, true, false)), (String ((Ascii (true, false, false,
    false, false, false, true, false)), (String ((Ascii (false, true, false,
    false, false, false, true, false)), (String ((Ascii (false, false, true,
    true, false, false, true, false)), (String ((Ascii (true, false, true,
    false, false, false, true, false)), (String ((Ascii (false, false, true,
    false, false, false, true, false)), (String ((Ascii (true, true, true,
    true, true, false, true, false)), (String ((Ascii (true, true, true,
    false, false, false, true, false)), (String ((Ascii (false, true, true,
    true, false, false, true, false)), (String ((Ascii (true, true, false,
    false, true, false, true, false)), (String ((Ascii (true, true, false,
    false, true, false, true, false)), (String ((Ascii (true, true, true,
    true, true, false, true, false)), (String ((Ascii (true, true, false,
    false, true, false, true, false)), (String ((Ascii (true, false, false,
    true, true, false, true, false)), (String ((Ascii (true, true, false,
    false, true, false, true, false)), (String ((Ascii (false, false, true,
    false, true, false, true, false)), (String ((Ascii (true, false, true,
    false, false, false, true, false)), (String ((Ascii (true, false, true,
    true, false, false, true, false)), (String ((Ascii (true, true, false,
    false, true, false, true, false)),
    EmptyString)))))))))))))))))))))))))))))))))))))))), (Zpos (XO (XI (XO
    (XO (XI XH))))))) :: (((String ((Ascii (true, false, true, false, false,
    false, true, false)), (String ((Ascii (false, true, true, true, false,
    false, true, false)), (String ((Ascii (true, false, false, false, false,
    false, true, false)), (String ((Ascii (false, true, false, false, false,
    false, true, false)), (String ((Ascii (false, false, true, true, false,
    false, true, false)), (String ((Ascii (true, false, true, false, false,
    false, true, false)), (String ((Ascii (false, false, true, false, false,
    false, true, false)), (String ((Ascii (true, true, true, true, true,
    false, true, false)), (String ((Ascii (true, true, true, false, false,
    false, true, false)), (String ((Ascii (false, true, true, true, false,
    false, true, false)), (String ((Ascii (true, true, false, false, true,
    false, true, false)), (String ((Ascii (true, true, false, false, true,
    false, true, false)), (String ((Ascii (true, true, true, true, true,
    false, true, false)), (String ((Ascii (false, true, true, false, false,
    false, true, false)), (String ((Ascii (false, true, false, false, true,
    false, true, false)), (String ((Ascii (true, false, true, false, false,
    false, true, false)), (String ((Ascii (true, false, false, false, true,
    false, true, false)), (String ((Ascii (true, false, true, false, true,
    false, true, false)), (String ((Ascii (true, false, true, false, false,
    false, true, false)), (String ((Ascii (false, true, true, true, false,
    false, true, false)), (String ((Ascii (true, true, false, false, false,
    false, true, false)), (String ((Ascii (true, false, false, true, true,
    false, true, false)), (String ((Ascii (true, true, true, true, true,
    false, true, false)), (String ((Ascii (false, true, false, false, false,
    false, true, false)), (String ((Ascii (true, false, false, false, false,
    false, true, false)), (String ((Ascii (false, true, true, true, false,
    false, true, false)), (String ((Ascii (false, false, true, false, false,
    false, true, false)), (String ((Ascii (true, true, false, false, true,
    false, true, false)),
    EmptyString)))))))))))))))))))))))))))))))))))))))))))))))))))))))),
    (Zpos (XI (XI (XO (XO (XI XH))))))) :: (((String ((Ascii (false, false,
    true, true, false, false, true, false)), (String ((Ascii (true, false,
    true, false, false, false, true, false)), (String ((Ascii (true, false,
    false, false, false, false, true, false)), (String ((Ascii (false, false,
    false, false, true, false, true, false)), (String ((Ascii (true, true,
    true, true, true, false, true, false)), (String ((Ascii (true, true,
    false, false, true, false, true, false)), (String ((Ascii (true, false,
    true, false, false, false, true, false)), (String ((Ascii (true, true,
    false, false, false, false, true, false)), (String ((Ascii (true, true,
    true, true, false, false, true, false)), (String ((Ascii (false, true,
    true, true, false, false, true, false)), (String ((Ascii (false, false,
    true, false, false, false, true, false)),
    EmptyString)))))))))))))))))))))), (Zpos (XO (XO (XI (XO (XI
    XH))))))) :: (((String ((Ascii (true, true, true, false, false, false,
    true, false)), (String ((Ascii (false, false, false, false, true, false,
    true, false)), (String ((Ascii (true, true, false, false, true, false,
    true, false)), (String ((Ascii (true, true, true, true, true, false,
    true, false)), (String ((Ascii (true, true, true, false, true, false,
    true, false)), (String ((Ascii (true, false, true, false, false, false,
    true, false)), (String ((Ascii (true, false, true, false, false, false,
    true, false)), (String ((Ascii (true, true, false, true, false, false,
    true, false)), (String ((Ascii (true, true, true, true, true, false,
    true, false)), (String ((Ascii (false, true, false, false, true, false,
    true, false)), (String ((Ascii (true, true, true, true, false, false,
    true, false)), (String ((Ascii (false, false, true, true, false, false,
    true, false)), (String ((Ascii (false, false, true, true, false, false,
    true, false)), (String ((Ascii (true, true, true, true, false, false,
    true, false)), (String ((Ascii (false, true, true, false, true, false,
    true, false)), (String ((Ascii (true, false, true, false, false, false,
    true, false)), (String ((Ascii (false, true, false, false, true, false,
    true, false)), EmptyString)))))))))))))))))))))))))))))))))), (Zpos (XI
    (XO (XI (XO (XI XH))))))) :: (((String ((Ascii (true, false, false, true,
    false, false, true, false)), (String ((Ascii (true, true, true, true,
    false, false, true, false)), (String ((Ascii (false, true, true, true,
    false, false, true, false)), (String ((Ascii (true, true, true, true,
    false, false, true, false)), (String ((Ascii (true, true, false, false,
    true, false, true, false)), (String ((Ascii (false, false, false, false,
    true, false, true, false)), (String ((Ascii (false, false, false, true,
    false, false, true, false)), (String ((Ascii (true, false, true, false,
    false, false, true, false)), (String ((Ascii (false, true, false, false,
    true, false, true, false)), (String ((Ascii (true, false, true, false,
    false, false, true, false)), (String ((Ascii (true, true, true, true,
    true, false, true, false)), (String ((Ascii (true, true, false, false,
    false, false, true, false)), (String ((Ascii (true, true, true, true,
    false, false, true, false)), (String ((Ascii (false, true, true, true,
    false, false, true, false)), (String ((Ascii (false, true, true, false,
    false, false, true, false)), (String ((Ascii (true, false, false, true,
    false, false, true, false)), (String ((Ascii (true, true, true, false,
    false, false, true, false)),
    EmptyString)))))))))))))))))))))))))))))))))), (Zpos (XO (XI (XI (XO (XI
    XH))))))) :: (((String ((Ascii (false, false, true, false, true, false,
    true, false)), (String ((Ascii (false, true, false, false, true, false,
    true, false)), (String ((Ascii (true, true, true, true, false, false,
    true, false)), (String ((Ascii (false, false, false, false, true, false,
    true, false)), (String ((Ascii (true, true, true, true, false, false,
    true, false)), (String ((Ascii (true, true, false, false, true, false,
    true, false)), (String ((Ascii (false, false, false, false, true, false,
    true, false)), (String ((Ascii (false, false, false, true, false, false,
    true, false)), (String ((Ascii (true, false, true, false, false, false,
    true, false)), (String ((Ascii (false, true, false, false, true, false,
    true, false)), (String ((Ascii (true, false, true, false, false, false,
    true, false)), (String ((Ascii (true, true, true, true, true, false,
    true, false)), (String ((Ascii (true, true, false, false, false, false,
    true, false)), (String ((Ascii (true, true, true, true, false, false,
    true, false)), (String ((Ascii (false, true, true, true, false, false,
    true, false)), (String ((Ascii (false, true, true, false, false, false,
    true, false)), (String ((Ascii (true, false, false, true, false, false,
    true, false)), (String ((Ascii (true, true, true, false, false, false,
    true, false)), EmptyString)))))))))))))))))))))))))))))))))))), (Zpos (XI
    (XI (XI (XO (XI XH))))))) :: (((String ((Ascii (true, false, false, true,
    false, false, true, false)), (String ((Ascii (false, true, true, true,
    false, false, true, false)), (String ((Ascii (false, false, true, false,
    true, false, true, false)), (String ((Ascii (true, false, true, false,
    false, false, true, false)), (String ((Ascii (false, true, false, false,
    true, false, true, false)), (String ((Ascii (false, true, true, false,
    false, false, true, false)), (String ((Ascii (true, false, false, false,
    false, false, true, false)), (String ((Ascii (true, true, false, false,
    false, false, true, false)), (String ((Ascii (true, false, true, false,
    false, false, true, false)), (String ((Ascii (true, true, true, true,
    true, false, true, false)), (String ((Ascii (true, true, false, false,
    false, false, true, false)), (String ((Ascii (true, true, true, true,
    false, false, true, false)), (String ((Ascii (false, true, true, true,
    false, false, true, false)), (String ((Ascii (false, true, true, false,
    false, false, true, false)), (String ((Ascii (true, false, false, true,
    false, false, true, false)), (String ((Ascii (true, true, true, false,
    false, false, true, false)), EmptyString)))))))))))))))))))))))))))))))),
    (Zpos (XO (XO (XO (XI (XO (XO (XI XH))))))))) :: (((String ((Ascii (true,
    false, true, false, true, false, true, false)), (String ((Ascii (true,
    false, false, false, false, false, true, false)), (String ((Ascii (false,
    true, false, false, true, false, true, false)), (String ((Ascii (false,
    false, true, false, true, false, true, false)), (String ((Ascii (true,
    false, false, false, true, true, false, false)), (String ((Ascii (true,
    true, true, true, true, false, true, false)), (String ((Ascii (false,
    true, false, false, false, false, true, false)), (String ((Ascii (true,
    false, false, false, false, false, true, false)), (String ((Ascii (true,
    false, true, false, true, false, true, false)), (String ((Ascii (false,
    false, true, false, false, false, true, false)),
    EmptyString)))))))))))))))))))), (Zpos (XO (XO (XO (XO (XO (XO (XO (XO
    XH)))))))))) :: (((String ((Ascii (true, false, true, false, true, false,
    true, false)), (String ((Ascii (true, false, false, false, false, false,
    true, false)), (String ((Ascii (false, true, false, false, true, false,
    true, false)), (String ((Ascii (false, false, true, false, true, false,
    true, false)), (String ((Ascii (false, true, false, false, true, true,
    false, false)), (String ((Ascii (true, true, true, true, true, false,
    true, false)), (String ((Ascii (false, true, false, false, false, false,
    true, false)), (String ((Ascii (true, false, false, false, false, false,
    true, false)), (String ((Ascii (true, false, true, false, true, false,
    true, false)), (String ((Ascii (false, false, true, false, false, false,
    true, false)), EmptyString)))))))))))))))))))), (Zpos (XI (XO (XO (XO (XO
    (XO (XO (XO XH)))))))))) :: (((String ((Ascii (true, false, true, false,
    true, false, true, false)), (String ((Ascii (true, false, false, false,
    false, false, true, false)), (String ((Ascii (false, true, false, false,
    true, false, true, false)), (String ((Ascii (false, false, true, false,
    true, false, true, false)), (String ((Ascii (true, false, false, false,
    true, true, false, false)), (String ((Ascii (true, true, true, true,
    true, false, true, false)), (String ((Ascii (true, true, true, true,
    false, false, true, false)), (String ((Ascii (true, false, true, false,
    true, false, true, false)), (String ((Ascii (false, false, true, false,
    true, false, true, false)), (String ((Ascii (false, false, false, false,
    true, false, true, false)), (String ((Ascii (true, false, true, false,
    true, false, true, false)), (String ((Ascii (false, false, true, false,
    true, false, true, false)), (String ((Ascii (true, true, true, true,
    true, false, true, false)), (String ((Ascii (false, false, true, false,
    false, false, true, false)), (String ((Ascii (true, false, false, true,
    false, false, true, false)), (String ((Ascii (true, false, false, false,
    false, false, true, false)), (String ((Ascii (true, true, true, false,
    false, false, true, false)), (String ((Ascii (false, true, true, true,
    false, false, true, false)), (String ((Ascii (true, true, true, true,
    false, false, true, false)), (String ((Ascii (true, true, false, false,
    true, false, true, false)), (String ((Ascii (false, false, true, false,
    true, false, true, false)), (String ((Ascii (true, false, false, true,
    false, false, true, false)), (String ((Ascii (true, true, false, false,
    false, false, true, false)), (String ((Ascii (true, true, false, false,
    true, false, true, false)), (String ((Ascii (true, true, true, true,
    true, false, true, false)), (String ((Ascii (true, false, true, true,
    false, false, true, false)), (String ((Ascii (true, false, true, false,
    false, false, true, false)), (String ((Ascii (true, true, false, false,
    true, false, true, false)), (String ((Ascii (true, true, false, false,
    true, false, true, false)), (String ((Ascii (true, false, false, false,
    false, false, true, false)), (String ((Ascii (true, true, true, false,
    false, false, true, false)), (String ((Ascii (true, false, true, false,
    false, false, true, false)), (String ((Ascii (true, true, false, false,
    true, false, true, false)),
    EmptyString)))))))))))))))))))))))))))))))))))))))))))))))))))))))))))))))))),
    (Zpos (XO (XI (XO (XO (XO (XO (XO (XO XH)))))))))) :: (((String ((Ascii
    (true, false, true, false, true, false, true, false)), (String ((Ascii
    (true, false, false, false, false, false, true, false)), (String ((Ascii
    (false, true, false, false, true, false, true, false)), (String ((Ascii
    (false, false, true, false, true, false, true, false)), (String ((Ascii
    (false, true, false, false, true, true, false, false)), (String ((Ascii
    (true, true, true, true, true, false, true, false)), (String ((Ascii
    (true, true, true, true, false, false, true, false)), (String ((Ascii
    (true, false, true, false, true, false, true, false)), (String ((Ascii
    (false, false, true, false, true, false, true, false)), (String ((Ascii
    (false, false, false, false, true, false, true, false)), (String ((Ascii
    (true, false, true, false, true, false, true, false)), (String ((Ascii
    (false, false, true, false, true, false, true, false)), (String ((Ascii
    (true, true, true, true, true, false, true, false)), (String ((Ascii
    (false, false, true, false, false, false, true, false)), (String ((Ascii
    (true, false, false, true, false, false, true, false)), (String ((Ascii
    (true, false, false, false, false, false, true, false)), (String ((Ascii
    (true, true, true, false, false, false, true, false)), (String ((Ascii
    (false, true, true, true, false, false, true, false)), (String ((Ascii
    (true, true, true, true, false, false, true, false)), (String ((Ascii
    (true, true, false, false, true, false, true, false)), (String ((Ascii
    (false, false, true, false, true, false, true, false)), (String ((Ascii
    (true, false, false, true, false, false, true, false)), (String ((Ascii
    (true, true, false, false, false, false, true, false)), (String ((Ascii
    (true, true, false, false, true, false, true, false)), (String ((Ascii
    (true, true, true, true, true, false, true, false)), (String ((Ascii
    (true, false, true, true, false, false, true, false)), (String ((Ascii
    (true, false, true, false, false, false, true, false)), (String ((Ascii
    (true, true, false, false, true, false, true, false)), (String ((Ascii
    (true, true, false, false, true, false, true, false)), (String ((Ascii
    (true, false, false, false, false, false, true, false)), (String ((Ascii
    (true, true, true, false, false, false, true, false)), (String ((Ascii
    (true, false, true, false, false, false, true, false)), (String ((Ascii
    (true, true, false, false, true, false, true, false)),
    EmptyString)))))))))))))))))))))))))))))))))))))))))))))))))))))))))))))))))),
    (Zpos (XI (XI (XO (XO (XO (XO (XO (XO XH)))))))))) :: (((String ((Ascii
    (true, false, true, false, false, false, true, false)), (String ((Ascii
    (false, true, true, true, false, false, true, false)), (String ((Ascii
    (true, false, false, false, false, false, true, false)), (String ((Ascii
    (false, true, false, false, false, false, true, false)), (String ((Ascii
    (false, false, true, true, false, false, true, false)), (String ((Ascii
    (true, false, true, false, false, false, true, false)), (String ((Ascii
    (true, true, true, true, true, false, true, false)), (String ((Ascii
    (true, true, true, false, true, false, true, false)), (String ((Ascii
    (true, false, false, false, false, false, true, false)), (String ((Ascii
    (false, false, true, false, true, false, true, false)), (String ((Ascii
    (true, true, false, false, false, false, true, false)), (String ((Ascii
    (false, false, false, true, false, false, true, false)), (String ((Ascii
    (false, false, true, false, false, false, true, false)), (String ((Ascii
    (true, true, true, true, false, false, true, false)), (String ((Ascii
    (true, true, true, false, false, false, true, false)), (String ((Ascii
    (true, true, true, true, true, false, true, false)), (String ((Ascii
    (false, false, true, false, true, false, true, false)), (String ((Ascii
    (true, false, false, true, false, false, true, false)), (String ((Ascii
    (true, false, true, true, false, false, true, false)), (String ((Ascii
    (true, false, true, false, false, false, true, false)), (String ((Ascii
    (false, true, false, false, true, false, true, false)),
    EmptyString)))))))))))))))))))))))))))))))))))))))))), (Zpos (XO (XO (XI
    (XI (XO (XI (XO (XO XH)))))))))) :: (((String ((Ascii (true, false, true,
    false, true, false, true, false)), (String ((Ascii (true, true, false,
    false, true, false, true, false)), (String ((Ascii (true, false, true,
    false, false, false, true, false)), (String ((Ascii (false, true, false,
    false, true, false, true, false)), (String ((Ascii (true, true, true,
    true, true, false, true, false)), (String ((Ascii (false, false, true,
    false, false, false, true, false)), (String ((Ascii (true, false, true,
    false, false, false, true, false)), (String ((Ascii (false, true, true,
    false, true, false, true, false)), (String ((Ascii (true, false, false,
    true, false, false, true, false)), (String ((Ascii (true, true, false,
    false, false, false, true, false)), (String ((Ascii (true, false, true,
    false, false, false, true, false)), (String ((Ascii (true, true, true,
    true, true, false, true, false)), (String ((Ascii (true, false, false,
    true, false, false, true, false)), (String ((Ascii (false, false, true,
    false, false, false, true, false)),
    EmptyString)))))))))))))))))))))))))))), (Zpos (XI (XO (XI (XI (XO (XI
    (XO (XO XH)))))))))) :: (((String ((Ascii (false, false, false, false,
    true, false, true, false)), (String ((Ascii (false, true, false, false,
    true, false, true, false)), (String ((Ascii (true, true, true, true,
    false, false, true, false)), (String ((Ascii (false, true, true, false,
    false, false, true, false)), (String ((Ascii (true, false, false, true,
    false, false, true, false)), (String ((Ascii (false, false, true, true,
    false, false, true, false)), (String ((Ascii (true, false, false, true,
    false, false, true, false)), (String ((Ascii (false, true, true, true,
    false, false, true, false)), (String ((Ascii (true, true, true, false,
    false, false, true, false)), (String ((Ascii (true, true, true, true,
    true, false, true, false)), (String ((Ascii (true, false, true, true,
    false, false, true, false)), (String ((Ascii (true, false, false, false,
    false, false, true, false)), (String ((Ascii (true, true, false, false,
    true, false, true, false)), (String ((Ascii (true, true, false, true,
    false, false, true, false)), EmptyString)))))))))))))))))))))))))))),
    (Zpos (XO (XI (XI (XO (XI (XI (XO (XO XH)))))))))) :: (((String ((Ascii
    (false, false, true, true, false, false, true, false)), (String ((Ascii
    (false, true, false, false, false, false, true, false)), (String ((Ascii
    (true, false, false, false, false, false, true, false)), (String ((Ascii
    (false, true, true, true, false, false, true, false)), (String ((Ascii
    (false, false, true, false, false, false, true, false)), (String ((Ascii
    (true, true, true, true, true, false, true, false)), (String ((Ascii
    (false, false, false, false, true, false, true, false)), (String ((Ascii
    (true, false, false, false, false, false, true, false)), (String ((Ascii
    (false, true, false, false, true, false, true, false)), (String ((Ascii
    (true, false, false, false, false, false, true, false)), (String ((Ascii
    (true, false, true, true, false, false, true, false)), (String ((Ascii
    (true, false, true, false, false, false, true, false)), (String ((Ascii
    (false, false, true, false, true, false, true, false)), (String ((Ascii
    (true, false, true, false, false, false, true, false)), (String ((Ascii
    (false, true, false, false, true, false, true, false)), (String ((Ascii
    (true, true, false, false, true, false, true, false)),
    EmptyString)))))))))))))))))))))))))))))))), (Zpos (XO (XO (XO (XO (XO
    (XO (XO (XO (XO (XO
    XH)))))))))))) :: [])))))))))))))))))))))))))) :: (((String ((Ascii
    (false, true, true, false, false, true, true, false)), (String ((Ascii
    (true, false, true, false, true, true, true, false)), (String ((Ascii
    (true, true, false, false, true, true, true, false)), (String ((Ascii
    (true, false, false, true, false, true, true, false)), (String ((Ascii
    (true, true, true, true, false, true, true, false)), (String ((Ascii
    (false, true, true, true, false, true, true, false)), (String ((Ascii
    (true, true, true, true, true, false, true, false)), (String ((Ascii
    (true, false, true, false, false, true, true, false)), (String ((Ascii
    (false, true, true, true, false, true, true, false)), (String ((Ascii
    (true, true, true, false, false, true, true, false)), (String ((Ascii
    (true, false, false, true, false, true, true, false)), (String ((Ascii
    (false, true, true, true, false, true, true, false)), (String ((Ascii
    (true, false, true, false, false, true, true, false)), (String ((Ascii
    (true, true, true, true, true, false, true, false)), (String ((Ascii
    (true, true, false, false, false, true, true, false)), (String ((Ascii
    (false, false, true, true, false, true, true, false)), (String ((Ascii
    (true, false, false, true, false, true, true, false)), (String ((Ascii
    (true, false, true, false, false, true, true, false)), (String ((Ascii
    (false, true, true, true, false, true, true, false)), (String ((Ascii
    (false, false, true, false, true, true, true, false)), (String ((Ascii
    (false, true, true, true, false, true, false, false)), (String ((Ascii
    (true, false, true, true, false, true, true, false)), (String ((Ascii
    (true, false, true, false, false, true, true, false)), (String ((Ascii
    (true, true, false, false, true, true, true, false)), (String ((Ascii
    (true, true, false, false, true, true, true, false)), (String ((Ascii
    (true, false, false, false, false, true, true, false)), (String ((Ascii
    (true, true, true, false, false, true, true, false)), (String ((Ascii
    (true, false, true, false, false, true, true, false)), (String ((Ascii
    (true, true, false, false, true, true, true, false)), (String ((Ascii
    (false, true, true, true, false, true, false, false)), (String ((Ascii
    (true, true, false, false, false, true, true, false)), (String ((Ascii
    (true, true, true, true, false, true, true, false)), (String ((Ascii
    (false, true, true, true, false, true, true, false)), (String ((Ascii
    (false, true, true, false, false, true, true, false)), (String ((Ascii
    (true, false, false, true, false, true, true, false)), (String ((Ascii
    (true, true, true, false, false, true, true, false)), (String ((Ascii
    (true, false, true, false, true, true, true, false)), (String ((Ascii
    (false, true, false, false, true, true, true, false)), (String ((Ascii
    (true, false, false, false, false, true, true, false)), (String ((Ascii
    (false, false, true, false, true, true, true, false)), (String ((Ascii
    (true, false, false, true, false, true, true, false)), (String ((Ascii
    (true, true, true, true, false, true, true, false)), (String ((Ascii
    (false, true, true, true, false, true, true, false)), (String ((Ascii
    (false, true, false, true, true, true, false, false)), (String ((Ascii
    (true, true, false, false, false, false, true, false)), (String ((Ascii
    (true, true, true, true, false, true, true, false)), (String ((Ascii
    (false, true, true, true, false, true, true, false)), (String ((Ascii
    (false, true, true, false, false, true, true, false)), (String ((Ascii
    (true, false, false, true, false, true, true, false)), (String ((Ascii
    (true, true, true, false, false, true, true, false)), (String ((Ascii
    (true, false, true, false, true, true, true, false)), (String ((Ascii
    (false, true, false, false, true, true, true, false)), (String ((Ascii
    (true, false, false, false, false, true, true, false)), (String ((Ascii
    (false, false, true, false, true, true, true, false)), (String ((Ascii
    (true, false, false, true, false, true, true, false)), (String ((Ascii
    (true, true, true, true, false, true, true, false)), (String ((Ascii
    (false, true, true, true, false, true, true, false)), (String ((Ascii
    (true, true, false, false, true, false, true, false)), (String ((Ascii
    (true, true, true, true, false, true, true, false)), (String ((Ascii
    (true, false, true, false, true, true, true, false)), (String ((Ascii
    (false, true, false, false, true, true, true, false)), (String ((Ascii
    (true, true, false, false, false, true, true, false)), (String ((Ascii
    (true, false, true, false, false, true, true, false)),
    EmptyString)))))))))))))))))))))))))))))))))))))))))))))))))))))))))))))))))))))))))))))))))))))))))))))))))))))))))))))))))))))))))))))),
    (((String ((Ascii (true, false, false, false, false, false, true,
    false)), (String ((Ascii (true, true, false, false, false, false, true,
    false)), (String ((Ascii (false, false, true, false, true, false, true,
    false)), (String ((Ascii (true, false, false, true, false, false, true,
    false)), (String ((Ascii (false, true, true, false, true, false, true,
    false)), (String ((Ascii (true, false, true, false, false, false, true,
    false)), EmptyString)))))))))))), Z0) :: (((String ((Ascii (true, true,
    false, false, true, false, true, false)), (String ((Ascii (true, false,
    false, false, false, false, true, false)), (String ((Ascii (false, true,
    true, false, true, false, true, false)), (String ((Ascii (true, false,
    true, false, false, false, true, false)), (String ((Ascii (false, false,
    true, false, false, false, true, false)), EmptyString)))))))))), (Zpos
    XH)) :: (((String ((Ascii (false, false, true, false, false, false, true,
    false)), (String ((Ascii (true, false, true, false, false, false, true,
    false)), (String ((Ascii (false, true, true, false, false, false, true,
    false)), (String ((Ascii (true, false, false, false, false, false, true,
    false)), (String ((Ascii (true, false, true, false, true, false, true,
    false)), (String ((Ascii (false, false, true, true, false, false, true,
    false)), (String ((Ascii (false, false, true, false, true, false, true,
    false)), EmptyString)))))))))))))), (Zpos (XO
    XH))) :: [])))) :: (((String ((Ascii (false, true, true, false, false,
    true, true, false)), (String ((Ascii (true, false, true, false, true,
    true, true, false)), (String ((Ascii (true, true, false, false, true,
    true, true, false)), (String ((Ascii (true, false, false, true, false,
    true, true, false)), (String ((Ascii (true, true, true, true, false,
    true, true, false)), (String ((Ascii (false, true, true, true, false,
    true, true, false)), (String ((Ascii (true, true, true, true, true,
    false, true, false)), (String ((Ascii (true, false, true, false, false,
    true, true, false)), (String ((Ascii (false, true, true, true, false,
    true, true, false)), (String ((Ascii (true, true, true, false, false,
    true, true, false)), (String ((Ascii (true, false, false, true, false,
    true, true, false)), (String ((Ascii (false, true, true, true, false,
    true, true, false)), (String ((Ascii (true, false, true, false, false,
    true, true, false)), (String ((Ascii (true, true, true, true, true,
    false, true, false)), (String ((Ascii (true, true, false, false, false,
    true, true, false)), (String ((Ascii (false, false, true, true, false,
    true, true, false)), (String ((Ascii (true, false, false, true, false,
    true, true, false)), (String ((Ascii (true, false, true, false, false,
    true, true, false)), (String ((Ascii (false, true, true, true, false,
    true, true, false)), (String ((Ascii (false, false, true, false, true,
    true, true, false)), (String ((Ascii (false, true, true, true, false,
    true, false, false)), (String ((Ascii (true, false, true, true, false,
    true, true, false)), (String ((Ascii (true, false, true, false, false,
    true, true, false)), (String ((Ascii (true, true, false, false, true,
    true, true, false)), (String ((Ascii (true, true, false, false, true,
    true, true, false)), (String ((Ascii (true, false, false, false, false,
    true, true, false)), (String ((Ascii (true, true, true, false, false,
    true, true, false)), (String ((Ascii (true, false, true, false, false,
    true, true, false)), (String ((Ascii (true, true, false, false, true,
    true, true, false)), (String ((Ascii (false, true, true, true, false,
    true, false, false)), (String ((Ascii (true, true, false, false, false,
    true, true, false)), (String ((Ascii (true, true, true, true, false,
    true, true, false)), (String ((Ascii (false, true, true, true, false,
    true, true, false)), (String ((Ascii (false, true, true, false, false,
    true, true, false)), (String ((Ascii (true, false, false, true, false,
    true, true, false)), (String ((Ascii (true, true, true, false, false,
    true, true, false)), (String ((Ascii (true, false, true, false, true,
    true, true, false)), (String ((Ascii (false, true, false, false, true,
    true, true, false)), (String ((Ascii (true, false, false, false, false,
    true, true, false)), (String ((Ascii (false, false, true, false, true,
    true, true, false)), (String ((Ascii (true, false, false, true, false,
    true, true, false)), (String ((Ascii (true, true, true, true, false,
    true, true, false)), (String ((Ascii (false, true, true, true, false,
    true, true, false)), (String ((Ascii (false, true, false, true, true,
    true, false, false)), (String ((Ascii (false, false, true, false, false,
    false, true, false)), (String ((Ascii (true, false, false, false, false,
    true, true, false)), (String ((Ascii (false, false, true, false, true,
    true, true, false)), (String ((Ascii (true, false, false, false, false,
    true, true, false)), (String ((Ascii (false, false, true, false, true,
    false, true, false)), (String ((Ascii (true, false, false, true, true,
    true, true, false)), (String ((Ascii (false, false, false, false, true,
    true, true, false)), (String ((Ascii (true, false, true, false, false,
    true, true, false)),
    EmptyString)))))))))))))))))))))))))))))))))))))))))))))))))))))))))))))))))))))))))))))))))))))))))))))))))))))))),
    (((String ((Ascii (true, true, false, false, false, false, true, false)),
    (String ((Ascii (true, false, false, false, false, false, true, false)),
    (String ((Ascii (false, false, true, true, false, false, true, false)),
    (String ((Ascii (true, false, false, true, false, false, true, false)),
    (String ((Ascii (false, true, false, false, false, false, true, false)),
    (String ((Ascii (false, true, false, false, true, false, true, false)),
    (String ((Ascii (true, false, false, false, false, false, true, false)),
    (String ((Ascii (false, false, true, false, true, false, true, false)),
    (String ((Ascii (true, false, false, true, false, false, true, false)),
    (String ((Ascii (true, true, true, true, false, false, true, false)),
    (String ((Ascii (false, true, true, true, false, false, true, false)),
    (String ((Ascii (true, true, true, true, true, false, true, false)),
    (String ((Ascii (true, true, false, false, true, false, true, false)),
    (String ((Ascii (false, false, true, false, true, false, true, false)),
    (String ((Ascii (true, false, false, false, false, false, true, false)),
    (String ((Ascii (false, false, true, false, true, false, true, false)),
    (String ((Ascii (true, false, true, false, false, false, true, false)),
    EmptyString)))))))))))))))))))))))))))))))))), Z0) :: (((String ((Ascii
    (true, true, false, false, false, false, true, false)), (String ((Ascii
    (false, true, false, false, true, false, true, false)), (String ((Ascii
    (true, false, false, false, false, false, true, false)), (String ((Ascii
    (true, true, false, false, true, false, true, false)), (String ((Ascii
    (false, false, false, true, false, false, true, false)), (String ((Ascii
    (true, true, true, true, true, false, true, false)), (String ((Ascii
    (false, false, true, true, false, false, true, false)), (String ((Ascii
    (true, true, true, true, false, false, true, false)), (String ((Ascii
    (true, true, true, false, false, false, true, false)),
    EmptyString)))))))))))))))))), (Zpos XH)) :: (((String ((Ascii (false,
    true, true, false, false, false, true, false)), (String ((Ascii (true,
    false, false, true, false, false, true, false)), (String ((Ascii (false,
    false, true, true, false, false, true, false)), (String ((Ascii (false,
    false, true, false, true, false, true, false)), (String ((Ascii (true,
    false, true, false, false, false, true, false)), (String ((Ascii (false,
    true, false, false, true, false, true, false)), (String ((Ascii (true,
    true, true, true, true, false, true, false)), (String ((Ascii (true,
    true, false, false, true, false, true, false)), (String ((Ascii (false,
    false, true, false, true, false, true, false)), (String ((Ascii (true,
    false, false, false, false, false, true, false)), (String ((Ascii (false,
    false, true, false, true, false, true, false)), (String ((Ascii (true,
    false, true, false, false, false, true, false)),
    EmptyString)))))))))))))))))))))))), (Zpos (XO XH))) :: (((String ((Ascii
    (true, false, true, false, true, false, true, false)), (String ((Ascii
    (true, true, false, false, true, false, true, false)), (String ((Ascii
    (true, false, true, false, false, false, true, false)), (String ((Ascii
    (false, true, false, false, true, false, true, false)), (String ((Ascii
    (true, true, true, true, true, false, true, false)), (String ((Ascii
    (true, true, false, false, false, false, true, false)), (String ((Ascii
    (true, true, true, true, false, false, true, false)), (String ((Ascii
    (false, true, true, true, false, false, true, false)), (String ((Ascii
    (false, true, true, false, false, false, true, false)), (String ((Ascii
    (true, false, false, true, false, false, true, false)), (String ((Ascii
    (true, true, true, false, false, false, true, false)),
    EmptyString)))))))))))))))))))))), (Zpos (XI XH))) :: (((String ((Ascii
    (true, false, false, true, false, false, true, false)), (String ((Ascii
    (false, true, true, true, false, false, true, false)), (String ((Ascii
    (false, true, true, false, true, false, true, false)), (String ((Ascii
    (true, false, false, false, false, false, true, false)), (String ((Ascii
    (false, false, true, true, false, false, true, false)), (String ((Ascii
    (true, false, false, true, false, false, true, false)), (String ((Ascii
    (false, false, true, false, false, false, true, false)),
    EmptyString)))))))))))))), (Zpos (XI (XI (XI (XI (XI (XI (XI
    XH))))))))) :: [])))))) :: (((String ((Ascii (false, true, true, false,
    false, true, true, false)), (String ((Ascii (true, false, true, false,
    true, true, true, false)), (String ((Ascii (true, true, false, false,
    true, true, true, false)), (String ((Ascii (true, false, false, true,
    false, true, true, false)), (String ((Ascii (true, true, true, true,
    false, true, true, false)), (String ((Ascii (false, true, true, true,
    false, true, true, false)), (String ((Ascii (true, true, true, true,
    true, false, true, false)), (String ((Ascii (true, false, true, false,
    false, true, true, false)), (String ((Ascii (false, true, true, true,
    false, true, true, false)), (String ((Ascii (true, true, true, false,
    false, true, true, false)), (String ((Ascii (true, false, false, true,
    false, true, true, false)), (String ((Ascii (false, true, true, true,
    false, true, true, false)), (String ((Ascii (true, false, true, false,
    false, true, true, false)), (String ((Ascii (true, true, true, true,
    true, false, true, false)), (String ((Ascii (true, true, false, false,
    false, true, true, false)), (String ((Ascii (false, false, true, true,
    false, true, true, false)), (String ((Ascii (true, false, false, true,
    false, true, true, false)), (String ((Ascii (true, false, true, false,
    false, true, true, false)), (String ((Ascii (false, true, true, true,
    false, true, true, false)), (String ((Ascii (false, false, true, false,
    true, true, true, false)), (String ((Ascii (false, true, true, true,
    false, true, false, false)), (String ((Ascii (true, false, true, true,
    false, true, true, false)), (String ((Ascii (true, false, true, false,
    false, true, true, false)), (String ((Ascii (true, true, false, false,
    true, true, true, false)), (String ((Ascii (true, true, false, false,
    true, true, true, false)), (String ((Ascii (true, false, false, false,
    false, true, true, false)), (String ((Ascii (true, true, true, false,
    false, true, true, false)), (String ((Ascii (true, false, true, false,
    false, true, true, false)), (String ((Ascii (true, true, false, false,
    true, true, true, false)), (String ((Ascii (false, true, true, true,
    false, true, false, false)), (String ((Ascii (true, true, false, false,
    false, true, true, false)), (String ((Ascii (true, true, true, true,
    false, true, true, false)), (String ((Ascii (false, true, true, true,
    false, true, true, false)), (String ((Ascii (false, true, true, false,
    false, true, true, false)), (String ((Ascii (true, false, false, true,
    false, true, true, false)), (String ((Ascii (true, true, true, false,
    false, true, true, false)), (String ((Ascii (true, false, true, false,
    true, true, true, false)), (String ((Ascii (false, true, false, false,
    true, true, true, false)), (String ((Ascii (true, false, false, false,
    false, true, true, false)), (String ((Ascii (false, false, true, false,
    true, true, true, false)), (String ((Ascii (true, false, false, true,
    false, true, true, false)), (String ((Ascii (true, true, true, true,
    false, true, true, false)), (String ((Ascii (false, true, true, true,
    false, true, true, false)), (String ((Ascii (false, true, false, true,
    true, true, false, false)), (String ((Ascii (false, false, true, false,
    false, false, true, false)), (String ((Ascii (true, false, false, true,
    false, true, true, false)), (String ((Ascii (false, true, false, false,
    true, true, true, false)), (String ((Ascii (true, false, true, false,
    false, true, true, false)), (String ((Ascii (true, true, false, false,
    false, true, true, false)), (String ((Ascii (false, false, true, false,
    true, true, true, false)), (String ((Ascii (true, false, false, true,
    false, true, true, false)), (String ((Ascii (true, true, true, true,
    false, true, true, false)), (String ((Ascii (false, true, true, true,
    false, true, true, false)),
    EmptyString)))))))))))))))))))))))))))))))))))))))))))))))))))))))))))))))))))))))))))))))))))))))))))))))))))))))))),
    (((String ((Ascii (false, true, true, false, false, false, true, false)),
    (String ((Ascii (true, true, true, true, false, false, true, false)),
    (String ((Ascii (false, true, false, false, true, false, true, false)),
    (String ((Ascii (true, true, true, false, true, false, true, false)),
    (String ((Ascii (true, false, false, false, false, false, true, false)),
    (String ((Ascii (false, true, false, false, true, false, true, false)),
    (String ((Ascii (false, false, true, false, false, false, true, false)),
    EmptyString)))))))))))))), Z0) :: (((String ((Ascii (false, true, false,
    false, false, false, true, false)), (String ((Ascii (true, false, false,
    false, false, false, true, false)), (String ((Ascii (true, true, false,
    false, false, false, true, false)), (String ((Ascii (true, true, false,
    true, false, false, true, false)), (String ((Ascii (true, true, true,
    false, true, false, true, false)), (String ((Ascii (true, false, false,
    false, false, false, true, false)), (String ((Ascii (false, true, false,
    false, true, false, true, false)), (String ((Ascii (false, false, true,
    false, false, false, true, false)), EmptyString)))))))))))))))), (Zpos
    XH)) :: (((String ((Ascii (false, false, true, true, false, false, true,
    false)), (String ((Ascii (true, false, true, false, false, false, true,
    false)), (String ((Ascii (false, true, true, false, false, false, true,
    false)), (String ((Ascii (false, false, true, false, true, false, true,
    false)), EmptyString)))))))), (Zpos (XO XH))) :: (((String ((Ascii
    (false, true, false, false, true, false, true, false)), (String ((Ascii
    (true, false, false, true, false, false, true, false)), (String ((Ascii
    (true, true, true, false, false, false, true, false)), (String ((Ascii
    (false, false, false, true, false, false, true, false)), (String ((Ascii
    (false, false, true, false, true, false, true, false)),
    EmptyString)))))))))), (Zpos (XI XH))) :: (((String ((Ascii (true, false,
    true, false, true, false, true, false)), (String ((Ascii (false, false,
    false, false, true, false, true, false)), EmptyString)))), (Zpos (XO (XO
    XH)))) :: (((String ((Ascii (false, false, true, false, false, false,
    true, false)), (String ((Ascii (true, true, true, true, false, false,
    true, false)), (String ((Ascii (true, true, true, false, true, false,
    true, false)), (String ((Ascii (false, true, true, true, false, false,
    true, false)), EmptyString)))))))), (Zpos (XI (XO XH)))) :: (((String
    ((Ascii (true, false, false, true, false, false, true, false)), (String
    ((Ascii (false, true, true, true, false, false, true, false)), (String
    ((Ascii (false, true, true, false, true, false, true, false)), (String
    ((Ascii (true, false, false, false, false, false, true, false)), (String
    ((Ascii (false, false, true, true, false, false, true, false)), (String
    ((Ascii (true, false, false, true, false, false, true, false)), (String
    ((Ascii (false, false, true, false, false, false, true, false)),
    EmptyString)))))))))))))), (Zpos (XI (XI (XI (XI (XI (XI (XI
    XH))))))))) :: [])))))))) :: (((String ((Ascii (false, true, true, false,
    false, true, true, false)), (String ((Ascii (true, false, true, false,
    true, true, true, false)), (String ((Ascii (true, true, false, false,
    true, true, true, false)), (String ((Ascii (true, false, false, true,
    false, true, true, false)), (String ((Ascii (true, true, true, true,
    false, true, true, false)), (String ((Ascii (false, true, true, true,
    false, true, true, false)), (String ((Ascii (true, true, true, true,
    true, false, true, false)), (String ((Ascii (true, false, true, false,
    false, true, true, false)), (String ((Ascii (false, true, true, true,
    false, true, true, false)), (String ((Ascii (true, true, true, false,
    false, true, true, false)), (String ((Ascii (true, false, false, true,
    false, true, true, false)), (String ((Ascii (false, true, true, true,
    false, true, true, false)), (String ((Ascii (true, false, true, false,
    false, true, true, false)), (String ((Ascii (true, true, true, true,
    true, false, true, false)), (String ((Ascii (true, true, false, false,
    false, true, true, false)), (String ((Ascii (false, false, true, true,
    false, true, true, false)), (String ((Ascii (true, false, false, true,
    false, true, true, false)), (String ((Ascii (true, false, true, false,
    false, true, true, false)), (String ((Ascii (false, true, true, true,
    false, true, true, false)), (String ((Ascii (false, false, true, false,
    true, true, true, false)), (String ((Ascii (false, true, true, true,
    false, true, false, false)), (String ((Ascii (true, false, true, true,
    false, true, true, false)), (String ((Ascii (true, false, true, false,
    false, true, true, false)), (String ((Ascii (true, true, false, false,
    true, true, true, false)), (String ((Ascii (true, true, false, false,
    true, true, true, false)), (String ((Ascii (true, false, false, false,
    false, true, true, false)), (String ((Ascii (true, true, true, false,
    false, true, true, false)), (String ((Ascii (true, false, true, false,
    false, true, true, false)), (String ((Ascii (true, true, false, false,
    true, true, true, false)), (String ((Ascii (false, true, true, true,
    false, true, false, false)), (String ((Ascii (true, true, false, false,
    false, true, true, false)), (String ((Ascii (true, true, true, true,
    false, true, true, false)), (String ((Ascii (false, true, true, true,
    false, true, true, false)), (String ((Ascii (false, true, true, false,
    false, true, true, false)), (String ((Ascii (true, false, false, true,
    false, true, true, false)), (String ((Ascii (true, true, true, false,
    false, true, true, false)), (String ((Ascii (true, false, true, false,
    true, true, true, false)), (String ((Ascii (false, true, false, false,
    true, true, true, false)), (String ((Ascii (true, false, false, false,
    false, true, true, false)), (String ((Ascii (false, false, true, false,
    true, true, true, false)), (String ((Ascii (true, false, false, true,
    false, true, true, false)), (String ((Ascii (true, true, true, true,
    false, true, true, false)), (String ((Ascii (false, true, true, true,
    false, true, true, false)), (String ((Ascii (false, true, false, true,
    true, true, false, false)), (String ((Ascii (true, false, false, true,
    false, false, true, false)), (String ((Ascii (false, true, true, true,
    false, true, true, false)), (String ((Ascii (false, false, true, false,
    true, true, true, false)), (String ((Ascii (true, false, true, false,
    false, true, true, false)), (String ((Ascii (false, true, false, false,
    true, true, true, false)), (String ((Ascii (false, true, true, false,
    false, true, true, false)), (String ((Ascii (true, false, false, false,
    false, true, true, false)), (String ((Ascii (true, true, false, false,
    false, true, true, false)), (String ((Ascii (true, false, true, false,
    false, true, true, false)), (String ((Ascii (true, true, false, false,
    false, false, true, false)), (String ((Ascii (true, true, true, true,
    false, true, true, false)), (String ((Ascii (false, true, true, true,
    false, true, true, false)), (String ((Ascii (false, true, true, false,
    false, true, true, false)), (String ((Ascii (true, false, false, true,
    false, true, true, false)), (String ((Ascii (true, true, true, false,
    false, true, true, false)), (String ((Ascii (false, false, true, false,
    true, false, true, false)), (String ((Ascii (true, false, false, true,
    true, true, true, false)), (String ((Ascii (false, false, false, false,
    true, true, true, false)), (String ((Ascii (true, false, true, false,
    false, true, true, false)),
    EmptyString)))))))))))))))))))))))))))))))))))))))))))))))))))))))))))))))))))))))))))))))))))))))))))))))))))))))))))))))))))))))))))))),
    (((String ((Ascii (true, false, false, true, false, false, true, false)),
    (String ((Ascii (false, true, true, true, false, false, true, false)),
    (String ((Ascii (false, true, true, false, true, false, true, false)),
    (String ((Ascii (true, false, false, false, false, false, true, false)),
    (String ((Ascii (false, false, true, true, false, false, true, false)),
    (String ((Ascii (true, false, false, true, false, false, true, false)),
    (String ((Ascii (false, false, true, false, false, false, true, false)),
    EmptyString)))))))))))))), Z0) :: (((String ((Ascii (true, true, true,
    true, false, false, true, false)), (String ((Ascii (true, false, true,
    false, true, false, true, false)), (String ((Ascii (false, false, true,
    false, true, false, true, false)), (String ((Ascii (false, false, false,
    false, true, false, true, false)), (String ((Ascii (true, false, true,
    false, true, false, true, false)), (String ((Ascii (false, false, true,
    false, true, false, true, false)), (String ((Ascii (true, true, true,
    true, true, false, true, false)), (String ((Ascii (false, false, true,
    false, false, false, true, false)), (String ((Ascii (true, false, false,
    true, false, false, true, false)), (String ((Ascii (true, false, false,
    false, false, false, true, false)), (String ((Ascii (true, true, true,
    false, false, false, true, false)), (String ((Ascii (false, true, true,
    true, false, false, true, false)), (String ((Ascii (true, true, true,
    true, false, false, true, false)), (String ((Ascii (true, true, false,
    false, true, false, true, false)), (String ((Ascii (false, false, true,
    false, true, false, true, false)), (String ((Ascii (true, false, false,
    true, false, false, true, false)), (String ((Ascii (true, true, false,
    false, false, false, true, false)), (String ((Ascii (true, true, false,
    false, true, false, true, false)), (String ((Ascii (true, true, true,
    true, true, false, true, false)), (String ((Ascii (true, false, true,
    true, false, false, true, false)), (String ((Ascii (true, false, true,
    false, false, false, true, false)), (String ((Ascii (true, true, false,
    false, true, false, true, false)), (String ((Ascii (true, true, false,
    false, true, false, true, false)), (String ((Ascii (true, false, false,
    false, false, false, true, false)), (String ((Ascii (true, true, true,
    false, false, false, true, false)), (String ((Ascii (true, false, true,
    false, false, false, true, false)), (String ((Ascii (true, true, false,
    false, true, false, true, false)),
    EmptyString)))))))))))))))))))))))))))))))))))))))))))))))))))))), (Zpos
    XH)) :: (((String ((Ascii (false, true, false, false, false, false, true,
    false)), (String ((Ascii (true, false, false, false, false, false, true,
    false)), (String ((Ascii (true, false, true, false, true, false, true,
    false)), (String ((Ascii (false, false, true, false, false, false, true,
    false)), (String ((Ascii (true, true, true, true, true, false, true,
    false)), (String ((Ascii (false, true, false, false, true, false, true,
    false)), (String ((Ascii (true, false, false, false, false, false, true,
    false)), (String ((Ascii (false, false, true, false, true, false, true,
    false)), (String ((Ascii (true, false, true, false, false, false, true,
    false)), EmptyString)))))))))))))))))), (Zpos (XO XH))) :: (((String
    ((Ascii (false, true, false, false, true, false, true, false)), (String
    ((Ascii (true, false, true, false, false, false, true, false)), (String
    ((Ascii (true, false, true, true, false, false, true, false)), (String
    ((Ascii (true, true, true, true, false, false, true, false)), (String
    ((Ascii (false, false, true, false, true, false, true, false)), (String
    ((Ascii (true, false, true, false, false, false, true, false)), (String
    ((Ascii (true, true, true, true, true, false, true, false)), (String
    ((Ascii (true, false, false, false, false, false, true, false)), (String
    ((Ascii (false, false, true, false, false, false, true, false)), (String
    ((Ascii (false, false, true, false, false, false, true, false)), (String
    ((Ascii (false, true, false, false, true, false, true, false)), (String
    ((Ascii (true, false, true, false, false, false, true, false)), (String
    ((Ascii (true, true, false, false, true, false, true, false)), (String
    ((Ascii (true, true, false, false, true, false, true, false)),
    EmptyString)))))))))))))))))))))))))))), (Zpos (XI XH))) :: (((String
    ((Ascii (false, false, false, false, true, false, true, false)), (String
    ((Ascii (true, true, true, true, false, false, true, false)), (String
    ((Ascii (false, true, false, false, true, false, true, false)), (String
    ((Ascii (false, false, true, false, true, false, true, false)),
    EmptyString)))))))), (Zpos (XO (XO XH)))) :: (((String ((Ascii (true,
    false, true, false, false, false, true, false)), (String ((Ascii (false,
    true, true, true, false, false, true, false)), (String ((Ascii (true,
    false, false, false, false, false, true, false)), (String ((Ascii (false,
    true, false, false, false, false, true, false)), (String ((Ascii (false,
    false, true, true, false, false, true, false)), (String ((Ascii (true,
    false, true, false, false, false, true, false)), (String ((Ascii (false,
    false, true, false, false, false, true, false)),
    EmptyString)))))))))))))), (Zpos (XI (XO XH)))) :: (((String ((Ascii
    (false, false, true, false, false, false, true, false)), (String ((Ascii
    (true, false, false, true, false, false, true, false)), (String ((Ascii
    (false, true, false, false, true, false, true, false)), (String ((Ascii
    (true, false, true, false, false, false, true, false)), (String ((Ascii
    (true, true, false, false, false, false, true, false)), (String ((Ascii
    (false, false, true, false, true, false, true, false)), (String ((Ascii
    (true, false, false, true, false, false, true, false)), (String ((Ascii
    (true, true, true, true, false, false, true, false)), (String ((Ascii
    (false, true, true, true, false, false, true, false)),
    EmptyString)))))))))))))))))), (Zpos (XO (XI XH)))) :: (((String ((Ascii
    (true, true, false, false, true, false, true, false)), (String ((Ascii
    (true, true, true, true, false, false, true, false)), (String ((Ascii
    (true, true, false, false, false, false, true, false)), (String ((Ascii
    (true, true, false, true, false, false, true, false)), (String ((Ascii
    (true, false, true, false, false, false, true, false)), (String ((Ascii
    (false, false, true, false, true, false, true, false)), (String ((Ascii
    (true, true, true, true, true, false, true, false)), (String ((Ascii
    (false, false, true, false, true, false, true, false)), (String ((Ascii
    (true, false, false, true, true, false, true, false)), (String ((Ascii
    (false, false, false, false, true, false, true, false)), (String ((Ascii
    (true, false, true, false, false, false, true, false)),
    EmptyString)))))))))))))))))))))), (Zpos (XI (XI
    XH)))) :: []))))))))) :: (((String ((Ascii (false, true, true, false,
    false, true, true, false)), (String ((Ascii (true, false, true, false,
    true, true, true, false)), (String ((Ascii (true, true, false, false,
    true, true, true, false)), (String ((Ascii (true, false, false, true,
    false, true, true, false)), (String ((Ascii (true, true, true, true,
    false, true, true, false)), (String ((Ascii (false, true, true, true,
    false, true, true, false)), (String ((Ascii (true, true, true, true,
    true, false, true, false)), (String ((Ascii (true, false, true, false,
    false, true, true, false)), (String ((Ascii (false, true, true, true,
    false, true, true, false)), (String ((Ascii (true, true, true, false,
    false, true, true, false)), (String ((Ascii (true, false, false, true,
    false, true, true, false)), (String ((Ascii (false, true, true, true,
    false, true, true, false)), (String ((Ascii (true, false, true, false,
    false, true, true, false)), (String ((Ascii (true, true, true, true,
    true, false, true, false)), (String ((Ascii (true, true, false, false,
    false, true, true, false)), (String ((Ascii (false, false, true, true,
    false, true, true, false)), (String ((Ascii (true, false, false, true,
    false, true, true, false)), (String ((Ascii (true, false, true, false,
    false, true, true, false)), (String ((Ascii (false, true, true, true,
    false, true, true, false)), (String ((Ascii (false, false, true, false,
    true, true, true, false)), (String ((Ascii (false, true, true, true,
    false, true, false, false)), (String ((Ascii (true, false, true, true,
    false, true, true, false)), (String ((Ascii (true, false, true, false,
    false, true, true, false)), (String ((Ascii (true, true, false, false,
    true, true, true, false)), (String ((Ascii (true, true, false, false,
    true, true, true, false)), (String ((Ascii (true, false, false, false,
    false, true, true, false)), (String ((Ascii (true, true, true, false,
    false, true, true, false)), (String ((Ascii (true, false, true, false,
    false, true, true, false)), (String ((Ascii (true, true, false, false,
    true, true, true, false)), (String ((Ascii (false, true, true, true,
    false, true, false, false)), (String ((Ascii (true, true, false, false,
    false, true, true, false)), (String ((Ascii (true, true, true, true,
    false, true, true, false)), (String ((Ascii (false, true, true, true,
    false, true, true, false)), (String ((Ascii (false, true, true, false,
    false, true, true, false)), (String ((Ascii (true, false, false, true,
    false, true, true, false)), (String ((Ascii (true, true, true, false,
    false, true, true, false)), (String ((Ascii (true, false, true, false,
    true, true, true, false)), (String ((Ascii (false, true, false, false,
    true, true, true, false)), (String ((Ascii (true, false, false, false,
    false, true, true, false)), (String ((Ascii (false, false, true, false,
    true, true, true, false)), (String ((Ascii (true, false, false, true,
    false, true, true, false)), (String ((Ascii (true, true, true, true,
    false, true, true, false)), (String ((Ascii (false, true, true, true,
    false, true, true, false)), (String ((Ascii (false, true, false, true,
    true, true, false, false)), (String ((Ascii (true, false, false, true,
    false, false, true, false)), (String ((Ascii (true, true, true, true,
    false, true, true, false)), (String ((Ascii (false, true, true, true,
    false, true, true, false)), (String ((Ascii (true, true, true, true,
    false, true, true, false)), (String ((Ascii (false, false, true, false,
    false, false, true, false)), (String ((Ascii (true, false, true, false,
    false, true, true, false)), (String ((Ascii (false, false, true, true,
    false, true, true, false)), (String ((Ascii (true, false, false, false,
    false, true, true, false)), (String ((Ascii (true, false, false, true,
    true, true, true, false)), (String ((Ascii (true, false, true, true,
    false, false, true, false)), (String ((Ascii (true, true, true, true,
    false, true, true, false)), (String ((Ascii (false, false, true, false,
    false, true, true, false)), (String ((Ascii (true, false, true, false,
    false, true, true, false)), (String ((Ascii (false, false, true, true,
    false, true, true, false)),
    EmptyString)))))))))))))))))))))))))))))))))))))))))))))))))))))))))))))))))))))))))))))))))))))))))))))))))))))))))))))))))))),
    (((String ((Ascii (true, false, false, false, false, false, true,
    false)), (String ((Ascii (true, false, true, false, true, false, true,
    false)), (String ((Ascii (false, false, true, false, true, false, true,
    false)), (String ((Ascii (true, true, true, true, false, false, true,
    false)), EmptyString)))))))), Z0) :: (((String ((Ascii (true, true, true,
    true, false, false, true, false)), (String ((Ascii (false, true, true,
    false, false, false, true, false)), (String ((Ascii (false, true, true,
    false, false, false, true, false)), EmptyString)))))), (Zpos
    XH)) :: (((String ((Ascii (true, true, false, true, false, false, true,
    false)), (String ((Ascii (false, false, true, true, false, false, true,
    false)), (String ((Ascii (true, true, true, true, false, false, true,
    false)), (String ((Ascii (false, true, false, false, false, false, true,
    false)), (String ((Ascii (true, false, true, false, true, false, true,
    false)), (String ((Ascii (true, true, false, false, false, false, true,
    false)), (String ((Ascii (false, false, false, true, false, false, true,
    false)), (String ((Ascii (true, false, false, false, false, false, true,
    false)), (String ((Ascii (false, true, false, false, true, false, true,
    false)), EmptyString)))))))))))))))))), (Zpos (XO XH))) :: (((String
    ((Ascii (true, true, false, false, true, false, true, false)), (String
    ((Ascii (false, true, false, false, false, false, true, false)), (String
    ((Ascii (true, false, false, false, false, false, true, false)), (String
    ((Ascii (true, true, false, false, true, false, true, false)),
    EmptyString)))))))), (Zpos (XI XH))) :: []))))) :: (((String ((Ascii
    (false, true, true, false, false, true, true, false)), (String ((Ascii
    (true, false, true, false, true, true, true, false)), (String ((Ascii
    (true, true, false, false, true, true, true, false)), (String ((Ascii
    (true, false, false, true, false, true, true, false)), (String ((Ascii
    (true, true, true, true, false, true, true, false)), (String ((Ascii
    (false, true, true, true, false, true, true, false)), (String ((Ascii
    (true, true, true, true, true, false, true, false)), (String ((Ascii
    (true, false, true, false, false, true, true, false)), (String ((Ascii
    (false, true, true, true, false, true, true, false)), (String ((Ascii
    (true, true, true, false, false, true, true, false)), (String ((Ascii
    (true, false, false, true, false, true, true, false)), (String ((Ascii
    (false, true, true, true, false, true, true, false)), (String ((Ascii
    (true, false, true, false, false, true, true, false)), (String ((Ascii
    (true, true, true, true, true, false, true, false)), (String ((Ascii
    (true, true, false, false, false, true, true, false)), (String ((Ascii
    (false, false, true, true, false, true, true, false)), (String ((Ascii
    (true, false, false, true, false, true, true, false)), (String ((Ascii
    (true, false, true, false, false, true, true, false)), (String ((Ascii
    (false, true, true, true, false, true, true, false)), (String ((Ascii
    (false, false, true, false, true, true, true, false)), (String ((Ascii
    (false, true, true, true, false, true, false, false)), (String ((Ascii
    (true, false, true, true, false, true, true, false)), (String ((Ascii
    (true, false, true, false, false, true, true, false)), (String ((Ascii
    (true, true, false, false, true, true, true, false)), (String ((Ascii
    (true, true, false, false, true, true, true, false)), (String ((Ascii
    (true, false, false, false, false, true, true, false)), (String ((Ascii
    (true, true, true, false, false, true, true, false)), (String ((Ascii
    (true, false, true, false, false, true, true, false)), (String ((Ascii
    (true, true, false, false, true, true, true, false)), (String ((Ascii
    (false, true, true, true, false, true, false, false)), (String ((Ascii
    (true, true, false, false, false, true, true, false)), (String ((Ascii
    (true, true, true, true, false, true, true, false)), (String ((Ascii
    (false, true, true, true, false, true, true, false)), (String ((Ascii
    (false, true, true, false, false, true, true, false)), (String ((Ascii
    (true, false, false, true, false, true, true, false)), (String ((Ascii
    (true, true, true, false, false, true, true, false)), (String ((Ascii
    (true, false, true, false, true, true, true, false)), (String ((Ascii
    (false, true, false, false, true, true, true, false)), (String ((Ascii
    (true, false, false, false, false, true, true, false)), (String ((Ascii
    (false, false, true, false, true, true, true, false)), (String ((Ascii
    (true, false, false, true, false, true, true, false)), (String ((Ascii
    (true, true, true, true, false, true, true, false)), (String ((Ascii
    (false, true, true, true, false, true, true, false)), (String ((Ascii
    (false, true, false, true, true, true, false, false)), (String ((Ascii
    (true, false, true, true, false, false, true, false)), (String ((Ascii
    (true, false, true, false, false, true, true, false)), (String ((Ascii
    (true, true, false, false, true, true, true, false)), (String ((Ascii
    (true, true, false, false, true, true, true, false)), (String ((Ascii
    (true, false, false, false, false, true, true, false)), (String ((Ascii
    (true, true, true, false, false, true, true, false)), (String ((Ascii
    (true, false, true, false, false, true, true, false)), (String ((Ascii
    (false, true, false, false, true, false, true, false)), (String ((Ascii
    (true, false, false, false, false, true, true, false)), (String ((Ascii
    (false, false, true, false, true, true, true, false)), (String ((Ascii
    (true, false, true, false, false, true, true, false)),
    EmptyString)))))))))))))))))))))))))))))))))))))))))))))))))))))))))))))))))))))))))))))))))))))))))))))))))))))))))))))),
    (((String ((Ascii (true, true, true, true, false, false, true, false)),
    (String ((Ascii (false, true, true, false, false, false, true, false)),
    (String ((Ascii (false, true, true, false, false, false, true, false)),
    EmptyString)))))), Z0) :: (((String ((Ascii (true, true, true, true,
    false, false, true, false)), (String ((Ascii (false, true, true, true,
    false, false, true, false)), (String ((Ascii (true, true, true, true,
    true, false, true, false)), (String ((Ascii (true, true, false, false,
    false, false, true, false)), (String ((Ascii (false, false, false, true,
    false, false, true, false)), (String ((Ascii (true, false, false, false,
    false, false, true, false)), (String ((Ascii (false, true, true, true,
    false, false, true, false)), (String ((Ascii (true, true, true, false,
    false, false, true, false)), (String ((Ascii (true, false, true, false,
    false, false, true, false)), EmptyString)))))))))))))))))), (Zpos
    XH)) :: (((String ((Ascii (true, false, true, true, false, false, true,
    false)), (String ((Ascii (true, false, false, false, false, false, true,
    false)), (String ((Ascii (false, false, false, true, true, false, true,
    false)), (String ((Ascii (true, true, true, true, true, false, true,
    false)), (String ((Ascii (false, true, false, false, true, false, true,
    false)), (String ((Ascii (true, false, false, false, false, false, true,
    false)), (String ((Ascii (false, false, true, false, true, false, true,
    false)), (String ((Ascii (true, false, true, false, false, false, true,
    false)), EmptyString)))))))))))))))), (Zpos XH)) :: (((String ((Ascii
    (true, false, false, true, false, false, true, false)), (String ((Ascii
    (false, true, true, true, false, false, true, false)), (String ((Ascii
    (false, false, true, false, true, false, true, false)), (String ((Ascii
    (true, false, true, false, false, false, true, false)), (String ((Ascii
    (false, true, false, false, true, false, true, false)), (String ((Ascii
    (false, true, true, false, true, false, true, false)), (String ((Ascii
    (true, false, false, false, false, false, true, false)), (String ((Ascii
    (false, false, true, true, false, false, true, false)), (String ((Ascii
    (true, true, true, true, true, false, true, false)), (String ((Ascii
    (true, false, false, false, true, true, false, false)), (String ((Ascii
    (false, false, false, false, true, true, false, false)), (String ((Ascii
    (true, true, true, true, true, false, true, false)), (String ((Ascii
    (true, false, true, true, false, false, true, false)), (String ((Ascii
    (true, true, false, false, true, false, true, false)),
    EmptyString)))))))))))))))))))))))))))), (Zpos (XO XH))) :: (((String
    ((Ascii (true, false, false, true, false, false, true, false)), (String
    ((Ascii (false, true, true, true, false, false, true, false)), (String
    ((Ascii (false, false, true, false, true, false, true, false)), (String
    ((Ascii (true, false, true, false, false, false, true, false)), (String
    ((Ascii (false, true, false, false, true, false, true, false)), (String
    ((Ascii (false, true, true, false, true, false, true, false)), (String
    ((Ascii (true, false, false, false, false, false, true, false)), (String
    ((Ascii (false, false, true, true, false, false, true, false)), (String
    ((Ascii (true, true, true, true, true, false, true, false)), (String
    ((Ascii (false, true, false, false, true, true, false, false)), (String
    ((Ascii (false, false, false, false, true, true, false, false)), (String
    ((Ascii (true, true, true, true, true, false, true, false)), (String
    ((Ascii (true, false, true, true, false, false, true, false)), (String
    ((Ascii (true, true, false, false, true, false, true, false)),
    EmptyString)))))))))))))))))))))))))))), (Zpos (XI XH))) :: (((String
    ((Ascii (true, false, false, true, false, false, true, false)), (String
    ((Ascii (false, true, true, true, false, false, true, false)), (String
    ((Ascii (false, false, true, false, true, false, true, false)), (String
    ((Ascii (true, false, true, false, false, false, true, false)), (String
    ((Ascii (false, true, false, false, true, false, true, false)), (String
    ((Ascii (false, true, true, false, true, false, true, false)), (String
    ((Ascii (true, false, false, false, false, false, true, false)), (String
    ((Ascii (false, false, true, true, false, false, true, false)), (String
    ((Ascii (true, true, true, true, true, false, true, false)), (String
    ((Ascii (false, false, true, false, true, true, false, false)), (String
    ((Ascii (false, false, false, false, true, true, false, false)), (String
    ((Ascii (true, true, true, true, true, false, true, false)), (String
    ((Ascii (true, false, true, true, false, false, true, false)), (String
    ((Ascii (true, true, false, false, true, false, true, false)),
    EmptyString)))))))))))))))))))))))))))), (Zpos (XO (XO
    XH)))) :: (((String ((Ascii (true, false, false, true, false, false,
    true, false)), (String ((Ascii (false, true, true, true, false, false,
    true, false)), (String ((Ascii (false, false, true, false, true, false,
    true, false)), (String ((Ascii (true, false, true, false, false, false,
    true, false)), (String ((Ascii (false, true, false, false, true, false,
    true, false)), (String ((Ascii (false, true, true, false, true, false,
    true, false)), (String ((Ascii (true, false, false, false, false, false,
    true, false)), (String ((Ascii (false, false, true, true, false, false,
    true, false)), (String ((Ascii (true, true, true, true, true, false,
    true, false)), (String ((Ascii (true, false, true, false, true, true,
    false, false)), (String ((Ascii (false, false, false, false, true, true,
    false, false)), (String ((Ascii (true, true, true, true, true, false,
    true, false)), (String ((Ascii (true, false, true, true, false, false,
    true, false)), (String ((Ascii (true, true, false, false, true, false,
    true, false)), EmptyString)))))))))))))))))))))))))))), (Zpos (XI (XO
    XH)))) :: (((String ((Ascii (true, false, false, true, false, false,
    true, false)), (String ((Ascii (false, true, true, true, false, false,
    true, false)), (String ((Ascii (false, false, true, false, true, false,
    true, false)), (String ((Ascii (true, false, true, false, false, false,
    true, false)), (String ((Ascii (false, true, false, false, true, false,
    true, false)), (String ((Ascii (false, true, true, false, true, false,
    true, false)), (String ((Ascii (true, false, false, false, false, false,
    true, false)), (String ((Ascii (false, false, true, true, false, false,
    true, false)), (String ((Ascii (true, true, true, true, true, false,
    true, false)), (String ((Ascii (true, false, false, false, true, true,
    false, false)), (String ((Ascii (false, false, false, false, true, true,
    false, false)), (String ((Ascii (false, false, false, false, true, true,
    false, false)), (String ((Ascii (true, true, true, true, true, false,
    true, false)), (String ((Ascii (true, false, true, true, false, false,
    true, false)), (String ((Ascii (true, true, false, false, true, false,
    true, false)), EmptyString)))))))))))))))))))))))))))))), (Zpos (XO (XI
    XH)))) :: (((String ((Ascii (true, false, false, true, false, false,
    true, false)), (String ((Ascii (false, true, true, true, false, false,
    true, false)), (String ((Ascii (false, false, true, false, true, false,
    true, false)), (String ((Ascii (true, false, true, false, false, false,
    true, false)), (String ((Ascii (false, true, false, false, true, false,
    true, false)), (String ((Ascii (false, true, true, false, true, false,
    true, false)), (String ((Ascii (true, false, false, false, false, false,
    true, false)), (String ((Ascii (false, false, true, true, false, false,
    true, false)), (String ((Ascii (true, true, true, true, true, false,
    true, false)), (String ((Ascii (false, true, false, false, true, true,
    false, false)), (String ((Ascii (false, false, false, false, true, true,
    false, false)), (String ((Ascii (false, false, false, false, true, true,
    false, false)), (String ((Ascii (true, true, true, true, true, false,
    true, false)), (String ((Ascii (true, false, true, true, false, false,
    true, false)), (String ((Ascii (true, true, false, false, true, false,
    true, false)), EmptyString)))))))))))))))))))))))))))))), (Zpos (XI (XI
    XH)))) :: (((String ((Ascii (true, false, false, true, false, false,
    true, false)), (String ((Ascii (false, true, true, true, false, false,
    true, false)), (String ((Ascii (false, false, true, false, true, false,
    true, false)), (String ((Ascii (true, false, true, false, false, false,
    true, false)), (String ((Ascii (false, true, false, false, true, false,
    true, false)), (String ((Ascii (false, true, true, false, true, false,
    true, false)), (String ((Ascii (true, false, false, false, false, false,
    true, false)), (String ((Ascii (false, false, true, true, false, false,
    true, false)), (String ((Ascii (true, true, true, true, true, false,
    true, false)), (String ((Ascii (true, false, true, false, true, true,
    false, false)), (String ((Ascii (false, false, false, false, true, true,
    false, false)), (String ((Ascii (false, false, false, false, true, true,
    false, false)), (String ((Ascii (true, true, true, true, true, false,
    true, false)), (String ((Ascii (true, false, true, true, false, false,
    true, false)), (String ((Ascii (true, true, false, false, true, false,
    true, false)), EmptyString)))))))))))))))))))))))))))))), (Zpos (XO (XO
    (XO XH))))) :: (((String ((Ascii (true, false, false, true, false, false,
    true, false)), (String ((Ascii (false, true, true, true, false, false,
    true, false)), (String ((Ascii (false, false, true, false, true, false,
    true, false)), (String ((Ascii (true, false, true, false, false, false,
    true, false)), (String ((Ascii (false, true, false, false, true, false,
    true, false)), (String ((Ascii (false, true, true, false, true, false,
    true, false)), (String ((Ascii (true, false, false, false, false, false,
    true, false)), (String ((Ascii (false, false, true, true, false, false,
    true, false)), (String ((Ascii (true, true, true, true, true, false,
    true, false)), (String ((Ascii (true, false, false, false, true, true,
    false, false)), (String ((Ascii (true, true, true, true, true, false,
    true, false)), (String ((Ascii (true, true, false, false, true, false,
    true, false)), EmptyString)))))))))))))))))))))))), (Zpos (XI (XO (XO
    XH))))) :: (((String ((Ascii (true, false, false, true, false, false,
    true, false)), (String ((Ascii (false, true, true, true, false, false,
    true, false)), (String ((Ascii (false, false, true, false, true, false,
    true, false)), (String ((Ascii (true, false, true, false, false, false,
    true, false)), (String ((Ascii (false, true, false, false, true, false,
    true, false)), (String ((Ascii (false, true, true, false, true, false,
    true, false)), (String ((Ascii (true, false, false, false, false, false,
    true, false)), (String ((Ascii (false, false, true, true, false, false,
    true, false)), (String ((Ascii (true, true, true, true, true, false,
    true, false)), (String ((Ascii (false, true, false, false, true, true,
    false, false)), (String ((Ascii (true, true, true, true, true, false,
    true, false)), (String ((Ascii (true, true, false, false, true, false,
    true, false)), EmptyString)))))))))))))))))))))))), (Zpos (XO (XI (XO
    XH))))) :: (((String ((Ascii (true, false, false, true, false, false,
    true, false)), (String ((Ascii (false, true, true, true, false, false,
    true, false)), (String ((Ascii (false, false, true, false, true, false,
    true, false)), (String ((Ascii (true, false, true, false, false, false,
    true, false)), (String ((Ascii (false, true, false, false, true, false,
    true, false)), (String ((Ascii (false, true, true, false, true, false,
    true, false)), (String ((Ascii (true, false, false, false, false, false,
    true, false)), (String ((Ascii (false, false, true, true, false, false,
    true, false)), (String ((Ascii (true, true, true, true, true, false,
    true, false)), (String ((Ascii (true, false, true, false, true, true,
    false, false)), (String ((Ascii (true, true, true, true, true, false,
    true, false)), (String ((Ascii (true, true, false, false, true, false,
    true, false)), EmptyString)))))))))))))))))))))))), (Zpos (XI (XI (XO
    XH))))) :: (((String ((Ascii (true, false, false, true, false, false,
    true, false)), (String ((Ascii (false, true, true, true, false, false,
    true, false)), (String ((Ascii (false, false, true, false, true, false,
    true, false)), (String ((Ascii (true, false, true, false, false, false,
    true, false)), (String ((Ascii (false, true, false, false, true, false,
    true, false)), (String ((Ascii (false, true, true, false, true, false,
    true, false)), (String ((Ascii (true, false, false, false, false, false,
    true, false)), (String ((Ascii (false, false, true, true, false, false,
    true, false)), (String ((Ascii (true, true, true, true, true, false,
    true, false)), (String ((Ascii (true, false, false, false, true, true,
    false, false)), (String ((Ascii (false, false, false, false, true, true,
    false, false)), (String ((Ascii (true, true, true, true, true, false,
    true, false)), (String ((Ascii (true, true, false, false, true, false,
    true, false)), EmptyString)))))))))))))))))))))))))), (Zpos (XO (XO (XI
    XH))))) :: (((String ((Ascii (true, false, false, true, false, false,
    true, false)), (String ((Ascii (false, true, true, true, false, false,
    true, false)), (String ((Ascii (false, false, true, false, true, false,
    true, false)), (String ((Ascii (true, false, true, false, false, false,
    true, false)), (String ((Ascii (false, true, false, false, true, false,
    true, false)), (String ((Ascii (false, true, true, false, true, false,
    true, false)), (String ((Ascii (true, false, false, false, false, false,
    true, false)), (String ((Ascii (false, false, true, true, false, false,
    true, false)), (String ((Ascii (true, true, true, true, true, false,
    true, false)), (String ((Ascii (true, true, false, false, true, true,
    false, false)), (String ((Ascii (false, false, false, false, true, true,
    false, false)), (String ((Ascii (true, true, true, true, true, false,
    true, false)), (String ((Ascii (true, true, false, false, true, false,
    true, false)), EmptyString)))))))))))))))))))))))))), (Zpos (XI (XO (XI
    XH))))) :: (((String ((Ascii (true, false, false, true, false, false,
    true, false)), (String ((Ascii (false, true, true, true, false, false,
    true, false)), (String ((Ascii (false, false, true, false, true, false,
    true, false)), (String ((Ascii (true, false, true, false, false, false,
    true, false)), (String ((Ascii (false, true, false, false, true, false,
    true, false)), (String ((Ascii (false, true, true, false, true, false,
    true, false)), (String ((Ascii (true, false, false, false, false, false,
    true, false)), (String ((Ascii (false, false, true, true, false, false,
    true, false)), (String ((Ascii (true, true, true, true, true, false,
    true, false)), (String ((Ascii (false, true, true, false, true, true,
    false, false)), (String ((Ascii (false, false, false, false, true, true,
    false, false)), (String ((Ascii (true, true, true, true, true, false,
    true, false)), (String ((Ascii (true, true, false, false, true, false,
    true, false)), EmptyString)))))))))))))))))))))))))), (Zpos (XO (XI (XI
    XH))))) :: (((String ((Ascii (false, false, true, false, false, false,
    true, false)), (String ((Ascii (true, false, true, false, false, false,
    true, false)), (String ((Ascii (false, true, true, false, false, false,
    true, false)), (String ((Ascii (true, false, false, false, false, false,
    true, false)), (String ((Ascii (true, false, true, false, true, false,
    true, false)), (String ((Ascii (false, false, true, true, false, false,
    true, false)), (String ((Ascii (false, false, true, false, true, false,
    true, false)), EmptyString)))))))))))))), (Zpos (XI (XI (XI (XI (XI (XI
    (XI XH))))))))) :: [])))))))))))))))))) :: (((String ((Ascii (false,
    true, true, false, false, true, true, false)), (String ((Ascii (true,
    false, true, false, true, true, true, false)), (String ((Ascii (true,
    true, false, false, true, true, true, false)), (String ((Ascii (true,
    false, false, true, false, true, true, false)), (String ((Ascii (true,
    true, true, true, false, true, true, false)), (String ((Ascii (false,
    true, true, true, false, true, true, false)), (String ((Ascii (true,
    true, true, true, true, false, true, false)), (String ((Ascii (true,
    false, true, false, false, true, true, false)), (String ((Ascii (false,
    true, true, true, false, true, true, false)), (String ((Ascii (true,
    true, true, false, false, true, true, false)), (String ((Ascii (true,
    false, false, true, false, true, true, false)), (String ((Ascii (false,
    true, true, true, false, true, true, false)), (String ((Ascii (true,
    false, true, false, false, true, true, false)), (String ((Ascii (true,
    true, true, true, true, false, true, false)), (String ((Ascii (true,
    true, false, false, false, true, true, false)), (String ((Ascii (false,
    false, true, true, false, true, true, false)), (String ((Ascii (true,
    false, false, true, false, true, true, false)), (String ((Ascii (true,
    false, true, false, false, true, true, false)), (String ((Ascii (false,
    true, true, true, false, true, true, false)), (String ((Ascii (false,
    false, true, false, true, true, true, false)), (String ((Ascii (false,
    true, true, true, false, true, false, false)), (String ((Ascii (true,
    false, true, true, false, true, true, false)), (String ((Ascii (true,
    false, true, false, false, true, true, false)), (String ((Ascii (true,
    true, false, false, true, true, true, false)), (String ((Ascii (true,
    true, false, false, true, true, true, false)), (String ((Ascii (true,
    false, false, false, false, true, true, false)), (String ((Ascii (true,
    true, true, false, false, true, true, false)), (String ((Ascii (true,
    false, true, false, false, true, true, false)), (String ((Ascii (true,
    true, false, false, true, true, true, false)), (String ((Ascii (false,
    true, true, true, false, true, false, false)), (String ((Ascii (true,
    true, false, false, false, true, true, false)), (String ((Ascii (true,
    true, true, true, false, true, true, false)), (String ((Ascii (false,
    true, true, true, false, true, true, false)), (String ((Ascii (false,
    true, true, false, false, true, true, false)), (String ((Ascii (true,
    false, false, true, false, true, true, false)), (String ((Ascii (true,
    true, true, false, false, true, true, false)), (String ((Ascii (true,
    false, true, false, true, true, true, false)), (String ((Ascii (false,
    true, false, false, true, true, true, false)), (String ((Ascii (true,
    false, false, false, false, true, true, false)), (String ((Ascii (false,
    false, true, false, true, true, true, false)), (String ((Ascii (true,
    false, false, true, false, true, true, false)), (String ((Ascii (true,
    true, true, true, false, true, true, false)), (String ((Ascii (false,
    true, true, true, false, true, true, false)), (String ((Ascii (false,
    true, false, true, true, true, false, false)), (String ((Ascii (false,
    true, true, true, false, false, true, false)), (String ((Ascii (true,
    false, true, true, false, true, true, false)), (String ((Ascii (true,
    false, true, false, false, true, true, false)), (String ((Ascii (true,
    false, false, false, false, true, true, false)), (String ((Ascii (true,
    false, true, true, false, false, true, false)), (String ((Ascii (true,
    false, true, false, false, true, true, false)), (String ((Ascii (true,
    true, false, false, true, true, true, false)), (String ((Ascii (true,
    true, false, false, true, true, true, false)), (String ((Ascii (true,
    false, false, false, false, true, true, false)), (String ((Ascii (true,
    true, true, false, false, true, true, false)), (String ((Ascii (true,
    false, true, false, false, true, true, false)), (String ((Ascii (false,
    false, true, false, true, false, true, false)), (String ((Ascii (true,
    false, false, true, true, true, true, false)), (String ((Ascii (false,
    false, false, false, true, true, true, false)), (String ((Ascii (true,
    false, true, false, false, true, true, false)),
    EmptyString)))))))))))))))))))))))))))))))))))))))))))))))))))))))))))))))))))))))))))))))))))))))))))))))))))))))))))))))))))))),
    (((String ((Ascii (true, false, false, true, false, false, true, false)),
    (String ((Ascii (false, true, true, true, false, false, true, false)),
    (String ((Ascii (false, true, true, false, true, false, true, false)),
    (String ((Ascii (true, false, false, false, false, false, true, false)),
    (String ((Ascii (false, false, true, true, false, false, true, false)),
    (String ((Ascii (true, false, false, true, false, false, true, false)),
    (String ((Ascii (false, false, true, false, false, false, true, false)),
    EmptyString)))))))))))))), Z0) :: (((String ((Ascii (true, true, true,
    false, false, false, true, false)), (String ((Ascii (true, true, true,
    false, false, false, true, false)), (String ((Ascii (true, false, false,
    false, false, false, true, false)), EmptyString)))))), (Zpos
    XH)) :: (((String ((Ascii (true, true, true, false, false, false, true,
    false)), (String ((Ascii (false, false, true, true, false, false, true,
    false)), (String ((Ascii (false, false, true, true, false, false, true,
    false)), EmptyString)))))), (Zpos (XO XH))) :: (((String ((Ascii (true,
    true, true, false, false, false, true, false)), (String ((Ascii (true,
    true, false, false, true, false, true, false)), (String ((Ascii (true,
    false, false, false, false, false, true, false)), EmptyString)))))),
    (Zpos (XI XH))) :: (((String ((Ascii (true, true, true, false, false,
    false, true, false)), (String ((Ascii (true, true, false, false, true,
    false, true, false)), (String ((Ascii (false, true, true, false, true,
    false, true, false)), EmptyString)))))), (Zpos (XO (XO
    XH)))) :: (((String ((Ascii (false, true, false, false, true, false,
    true, false)), (String ((Ascii (true, false, true, true, false, false,
    true, false)), (String ((Ascii (true, true, false, false, false, false,
    true, false)), EmptyString)))))), (Zpos (XI (XO XH)))) :: (((String
    ((Ascii (false, true, true, false, true, false, true, false)), (String
    ((Ascii (false, false, true, false, true, false, true, false)), (String
    ((Ascii (true, true, true, false, false, false, true, false)),
    EmptyString)))))), (Zpos (XO (XI XH)))) :: (((String ((Ascii (false,
    true, false, true, true, false, true, false)), (String ((Ascii (false,
    false, true, false, false, false, true, false)), (String ((Ascii (true,
    false, false, false, false, false, true, false)), EmptyString)))))),
    (Zpos (XI (XI XH)))) :: (((String ((Ascii (false, false, false, false,
    true, false, true, false)), (String ((Ascii (true, false, false, false,
    true, true, false, false)), (String ((Ascii (true, true, false, false,
    false, false, true, false)), (String ((Ascii (true, false, false, false,
    false, false, true, false)), (String ((Ascii (false, false, true, true,
    false, false, true, false)), (String ((Ascii (true, true, false, false,
    true, false, true, false)), (String ((Ascii (false, false, true, false,
    true, false, true, false)), (String ((Ascii (true, false, false, false,
    false, false, true, false)), (String ((Ascii (false, false, true, false,
    true, false, true, false)), (String ((Ascii (true, false, true, false,
    true, false, true, false)), (String ((Ascii (true, true, false, false,
    true, false, true, false)), EmptyString)))))))))))))))))))))), (Zpos (XO
    (XO (XO (XI (XO (XI (XI (XI (XI XH))))))))))) :: (((String ((Ascii
    (false, false, false, false, true, false, true, false)), (String ((Ascii
    (true, false, false, false, true, true, false, false)), (String ((Ascii
    (true, false, true, true, false, false, true, false)), (String ((Ascii
    (true, true, false, false, true, false, true, false)), (String ((Ascii
    (true, true, true, false, false, false, true, false)),
    EmptyString)))))))))), (Zpos (XI (XO (XO (XI (XO (XI (XI (XI (XI
    XH))))))))))) :: (((String ((Ascii (false, false, false, false, true,
    false, true, false)), (String ((Ascii (true, false, false, false, true,
    false, true, false)), (String ((Ascii (false, false, true, false, true,
    false, true, false)), (String ((Ascii (true, false, true, true, false,
    false, true, false)), (String ((Ascii (false, true, true, false, true,
    false, true, false)), (String ((Ascii (true, false, true, false, false,
    false, true, false)), (String ((Ascii (false, true, false, false, true,
    false, true, false)), (String ((Ascii (false, true, true, true, false,
    false, true, false)), (String ((Ascii (true, true, true, true, false,
    false, true, false)), EmptyString)))))))))))))))))), (Zpos (XO (XO (XO
    (XO (XI (XI (XO (XI (XO (XO XH)))))))))))) :: (((String ((Ascii (false,
    false, false, false, true, false, true, false)), (String ((Ascii (true,
    false, false, false, true, false, true, false)), (String ((Ascii (false,
    false, true, false, true, false, true, false)), (String ((Ascii (true,
    false, true, true, false, false, true, false)), (String ((Ascii (false,
    true, true, false, true, false, true, false)), (String ((Ascii (true,
    false, true, false, false, false, true, false)), (String ((Ascii (false,
    true, false, false, true, false, true, false)),
    EmptyString)))))))))))))), (Zpos (XI (XO (XO (XO (XI (XI (XO (XI (XO (XO
    XH)))))))))))) :: (((String ((Ascii (false, false, false, false, true,
    false, true, false)), (String ((Ascii (true, false, false, false, true,
    false, true, false)), (String ((Ascii (false, false, true, false, true,
    false, true, false)), (String ((Ascii (true, false, true, true, false,
    false, true, false)), (String ((Ascii (true, true, true, false, false,
    false, true, false)), (String ((Ascii (false, true, true, true, false,
    false, true, false)), (String ((Ascii (true, true, false, false, true,
    false, true, false)), (String ((Ascii (true, true, false, false, true,
    false, true, false)), EmptyString)))))))))))))))), (Zpos (XO (XI (XO (XO
    (XI (XI (XO (XI (XO (XO XH)))))))))))) :: (((String ((Ascii (false,
    false, false, false, true, false, true, false)), (String ((Ascii (true,
    false, false, false, true, false, true, false)), (String ((Ascii (false,
    false, true, false, true, false, true, false)), (String ((Ascii (true,
    false, true, true, false, false, true, false)), (String ((Ascii (false,
    true, true, false, true, false, true, false)), (String ((Ascii (true,
    false, true, false, false, false, true, false)), (String ((Ascii (false,
    true, false, false, true, false, true, false)), (String ((Ascii (false,
    true, true, true, false, false, true, false)), (String ((Ascii (true,
    true, true, true, false, false, true, false)), (String ((Ascii (true,
    true, true, true, true, false, true, false)), (String ((Ascii (true,
    true, false, false, true, false, true, false)), (String ((Ascii (true,
    false, true, false, true, false, true, false)), (String ((Ascii (false,
    true, false, false, false, false, true, false)),
    EmptyString)))))))))))))))))))))))))), (Zpos (XI (XI (XO (XO (XI (XI (XO
    (XI (XO (XO XH)))))))))))) :: (((String ((Ascii (false, false, false,
    false, true, false, true, false)), (String ((Ascii (true, false, false,
    false, true, false, true, false)), (String ((Ascii (false, false, true,
    false, true, false, true, false)), (String ((Ascii (true, false, true,
    true, false, false, true, false)), (String ((Ascii (false, true, true,
    false, true, false, true, false)), (String ((Ascii (true, false, true,
    false, false, false, true, false)), (String ((Ascii (false, true, false,
    false, true, false, true, false)), (String ((Ascii (true, true, true,
    true, true, false, true, false)), (String ((Ascii (true, true, false,
    false, true, false, true, false)), (String ((Ascii (true, false, true,
    false, true, false, true, false)), (String ((Ascii (false, true, false,
    false, false, false, true, false)), EmptyString)))))))))))))))))))))),
    (Zpos (XO (XO (XI (XO (XI (XI (XO (XI (XO (XO XH)))))))))))) :: (((String
    ((Ascii (false, false, false, false, true, false, true, false)), (String
    ((Ascii (true, false, false, false, true, false, true, false)), (String
    ((Ascii (false, false, true, false, true, false, true, false)), (String
    ((Ascii (true, false, true, true, false, false, true, false)), (String
    ((Ascii (false, false, true, false, true, false, true, false)), (String
    ((Ascii (false, false, false, true, true, false, true, false)), (String
    ((Ascii (false, false, true, false, true, false, true, false)),
    EmptyString)))))))))))))), (Zpos (XI (XO (XI (XO (XI (XI (XO (XI (XO (XO
    XH)))))))))))) :: []))))))))))))))))) :: (((String ((Ascii (false, true,
    true, false, false, true, true, false)), (String ((Ascii (true, false,
    true, false, true, true, true, false)), (String ((Ascii (true, true,
    false, false, true, true, true, false)), (String ((Ascii (true, false,
    false, true, false, true, true, false)), (String ((Ascii (true, true,
    true, true, false, true, true, false)), (String ((Ascii (false, true,
    true, true, false, true, true, false)), (String ((Ascii (true, true,
    true, true, true, false, true, false)), (String ((Ascii (true, false,
    true, false, false, true, true, false)), (String ((Ascii (false, true,
    true, true, false, true, true, false)), (String ((Ascii (true, true,
    true, false, false, true, true, false)), (String ((Ascii (true, false,
    false, true, false, true, true, false)), (String ((Ascii (false, true,
    true, true, false, true, true, false)), (String ((Ascii (true, false,
    true, false, false, true, true, false)), (String ((Ascii (true, true,
    true, true, true, false, true, false)), (String ((Ascii (true, true,
    false, false, false, true, true, false)), (String ((Ascii (false, false,
    true, true, false, true, true, false)), (String ((Ascii (true, false,
    false, true, false, true, true, false)), (String ((Ascii (true, false,
    true, false, false, true, true, false)), (String ((Ascii (false, true,
    true, true, false, true, true, false)), (String ((Ascii (false, false,
    true, false, true, true, true, false)), (String ((Ascii (false, true,
    true, true, false, true, false, false)), (String ((Ascii (true, false,
    true, true, false, true, true, false)), (String ((Ascii (true, false,
    true, false, false, true, true, false)), (String ((Ascii (true, true,
    false, false, true, true, true, false)), (String ((Ascii (true, true,
    false, false, true, true, true, false)), (String ((Ascii (true, false,
    false, false, false, true, true, false)), (String ((Ascii (true, true,
    true, false, false, true, true, false)), (String ((Ascii (true, false,
    true, false, false, true, true, false)), (String ((Ascii (true, true,
    false, false, true, true, true, false)), (String ((Ascii (false, true,
    true, true, false, true, false, false)), (String ((Ascii (true, true,
    false, false, false, true, true, false)), (String ((Ascii (true, true,
    true, true, false, true, true, false)), (String ((Ascii (false, true,
    true, true, false, true, true, false)), (String ((Ascii (false, true,
    true, false, false, true, true, false)), (String ((Ascii (true, false,
    false, true, false, true, true, false)), (String ((Ascii (true, true,
    true, false, false, true, true, false)), (String ((Ascii (true, false,
    true, false, true, true, true, false)), (String ((Ascii (false, true,
    false, false, true, true, true, false)), (String ((Ascii (true, false,
    false, false, false, true, true, false)), (String ((Ascii (false, false,
    true, false, true, true, true, false)), (String ((Ascii (true, false,
    false, true, false, true, true, false)), (String ((Ascii (true, true,
    true, true, false, true, true, false)), (String ((Ascii (false, true,
    true, true, false, true, true, false)), (String ((Ascii (false, true,
    false, true, true, true, false, false)), (String ((Ascii (false, false,
    false, false, true, false, true, false)), (String ((Ascii (false, true,
    false, false, true, true, true, false)), (String ((Ascii (true, true,
    true, true, false, true, true, false)), (String ((Ascii (false, false,
    true, false, true, true, true, false)), (String ((Ascii (true, true,
    true, true, false, true, true, false)), (String ((Ascii (true, true,
    false, false, false, true, true, false)), (String ((Ascii (true, true,
    true, true, false, true, true, false)), (String ((Ascii (false, false,
    true, true, false, true, true, false)), (String ((Ascii (false, false,
    true, false, true, false, true, false)), (String ((Ascii (true, false,
    false, true, true, true, true, false)), (String ((Ascii (false, false,
    false, false, true, true, true, false)), (String ((Ascii (true, false,
    true, false, false, true, true, false)),
    EmptyString)))))))))))))))))))))))))))))))))))))))))))))))))))))))))))))))))))))))))))))))))))))))))))))))))))))))))))))))),
    (((String ((Ascii (true, false, false, true, false, false, true, false)),
    (String ((Ascii (false, true, true, true, false, false, true, false)),
    (String ((Ascii (false, true, true, false, true, false, true, false)),
    (String ((Ascii (true, false, false, false, false, false, true, false)),
    (String ((Ascii (false, false, true, true, false, false, true, false)),
    (String ((Ascii (true, false, false, true, false, false, true, false)),
    (String ((Ascii (false, false, true, false, false, false, true, false)),
    EmptyString)))))))))))))), Z0) :: (((String ((Ascii (false, true, true,
    false, false, false, true, false)), (String ((Ascii (true, false, true,
    false, true, false, true, false)), (String ((Ascii (true, true, false,
    false, true, false, true, false)), (String ((Ascii (true, false, false,
    true, false, false, true, false)), (String ((Ascii (true, true, true,
    true, false, false, true, false)), (String ((Ascii (false, true, true,
    true, false, false, true, false)), (String ((Ascii (true, true, true,
    true, true, false, true, false)), (String ((Ascii (true, false, true,
    false, false, false, true, false)), (String ((Ascii (false, true, true,
    true, false, false, true, false)), (String ((Ascii (true, true, true,
    false, false, false, true, false)), (String ((Ascii (true, false, false,
    true, false, false, true, false)), (String ((Ascii (false, true, true,
    true, false, false, true, false)), (String ((Ascii (true, false, true,
    false, false, false, true, false)),
    EmptyString)))))))))))))))))))))))))), (Zpos XH)) :: (((String ((Ascii
    (false, true, true, true, false, false, true, false)), (String ((Ascii
    (true, false, true, true, false, false, true, false)), (String ((Ascii
    (true, false, true, false, false, false, true, false)), (String ((Ascii
    (true, false, false, false, false, false, true, false)),
    EmptyString)))))))), (Zpos (XO XH))) :: (((String ((Ascii (false, true,
    false, false, true, false, true, false)), (String ((Ascii (false, false,
    true, false, true, false, true, false)), (String ((Ascii (true, true,
    false, false, false, false, true, false)), (String ((Ascii (true, false,
    true, true, false, false, true, false)), EmptyString)))))))), (Zpos (XI
    XH))) :: (((String ((Ascii (true, false, false, false, false, false,
    true, false)), (String ((Ascii (false, false, true, true, false, false,
    true, false)), (String ((Ascii (false, false, true, true, false, false,
    true, false)), EmptyString)))))), (Zpos (XI (XI (XI (XI (XI (XI (XI
    XH))))))))) :: [])))))) :: (((String ((Ascii (false, true, true, false,
    false, true, true, false)), (String ((Ascii (true, false, true, false,
    true, true, true, false)), (String ((Ascii (true, true, false, false,
    true, true, true, false)), (String ((Ascii (true, false, false, true,
    false, true, true, false)), (String ((Ascii (true, true, true, true,
    false, true, true, false)), (String ((Ascii (false, true, true, true,
    false, true, true, false)), (String ((Ascii (true, true, true, true,
    true, false, true, false)), (String ((Ascii (true, false, true, false,
    false, true, true, false)), (String ((Ascii (false, true, true, true,
    false, true, true, false)), (String ((Ascii (true, true, true, false,
    false, true, true, false)), (String ((Ascii (true, false, false, true,
    false, true, true, false)), (String ((Ascii (false, true, true, true,
    false, true, true, false)), (String ((Ascii (true, false, true, false,
    false, true, true, false)), (String ((Ascii (true, true, true, true,
    true, false, true, false)), (String ((Ascii (true, true, false, false,
    false, true, true, false)), (String ((Ascii (false, false, true, true,
    false, true, true, false)), (String ((Ascii (true, false, false, true,
    false, true, true, false)), (String ((Ascii (true, false, true, false,
    false, true, true, false)), (String ((Ascii (false, true, true, true,
    false, true, true, false)), (String ((Ascii (false, false, true, false,
    true, true, true, false)), (String ((Ascii (false, true, true, true,
    false, true, false, false)), (String ((Ascii (true, false, true, true,
    false, true, true, false)), (String ((Ascii (true, false, true, false,
    false, true, true, false)), (String ((Ascii (true, true, false, false,
    true, true, true, false)), (String ((Ascii (true, true, false, false,
    true, true, true, false)), (String ((Ascii (true, false, false, false,
    false, true, true, false)), (String ((Ascii (true, true, true, false,
    false, true, true, false)), (String ((Ascii (true, false, true, false,
    false, true, true, false)), (String ((Ascii (true, true, false, false,
    true, true, true, false)), (String ((Ascii (false, true, true, true,
    false, true, false, false)), (String ((Ascii (true, true, false, false,
    false, true, true, false)), (String ((Ascii (true, true, true, true,
    false, true, true, false)), (String ((Ascii (false, true, true, true,
    false, true, true, false)), (String ((Ascii (false, true, true, false,
    false, true, true, false)), (String ((Ascii (true, false, false, true,
    false, true, true, false)), (String ((Ascii (true, true, true, false,
    false, true, true, false)), (String ((Ascii (true, false, true, false,
    true, true, true, false)), (String ((Ascii (false, true, false, false,
    true, true, true, false)), (String ((Ascii (true, false, false, false,
    false, true, true, false)), (String ((Ascii (false, false, true, false,
    true, true, true, false)), (String ((Ascii (true, false, false, true,
    false, true, true, false)), (String ((Ascii (true, true, true, true,
    false, true, true, false)), (String ((Ascii (false, true, true, true,
    false, true, true, false)), (String ((Ascii (false, true, false, true,
    true, true, false, false)), (String ((Ascii (true, true, false, false,
    true, false, true, false)), (String ((Ascii (true, false, false, false,
    false, true, true, false)), (String ((Ascii (false, true, true, false,
    true, true, true, false)), (String ((Ascii (true, false, true, false,
    false, true, true, false)), (String ((Ascii (true, false, false, false,
    false, false, true, false)), (String ((Ascii (true, true, false, false,
    false, true, true, false)), (String ((Ascii (false, false, true, false,
    true, true, true, false)), (String ((Ascii (true, false, false, true,
    false, true, true, false)), (String ((Ascii (true, true, true, true,
    false, true, true, false)), (String ((Ascii (false, true, true, true,
    false, true, true, false)),
    EmptyString)))))))))))))))))))))))))))))))))))))))))))))))))))))))))))))))))))))))))))))))))))))))))))))))))))))))))))),
    (((String ((Ascii (true, true, false, false, true, false, true, false)),
    (String ((Ascii (true, false, false, false, false, false, true, false)),
    (String ((Ascii (false, true, true, false, true, false, true, false)),
    (String ((Ascii (true, false, true, false, false, false, true, false)),
    EmptyString)))))))), Z0) :: (((String ((Ascii (false, true, false, false,
    true, false, true, false)), (String ((Ascii (true, false, true, false,
    false, false, true, false)), (String ((Ascii (false, true, true, false,
    true, false, true, false)), (String ((Ascii (true, false, true, false,
    false, false, true, false)), (String ((Ascii (false, true, false, false,
    true, false, true, false)), (String ((Ascii (false, false, true, false,
    true, false, true, false)), (String ((Ascii (true, true, true, true,
    true, false, true, false)), (String ((Ascii (false, false, true, false,
    true, false, true, false)), (String ((Ascii (true, true, true, true,
    false, false, true, false)), (String ((Ascii (true, true, true, true,
    true, false, true, false)), (String ((Ascii (true, true, false, false,
    true, false, true, false)), (String ((Ascii (true, false, false, false,
    false, false, true, false)), (String ((Ascii (false, true, true, false,
    true, false, true, false)), (String ((Ascii (true, false, true, false,
    false, false, true, false)), (String ((Ascii (false, false, true, false,
    false, false, true, false)), EmptyString)))))))))))))))))))))))))))))),
    (Zpos XH)) :: (((String ((Ascii (false, true, false, false, true, false,
    true, false)), (String ((Ascii (true, false, true, false, false, false,
    true, false)), (String ((Ascii (false, true, true, false, true, false,
    true, false)), (String ((Ascii (true, false, true, false, false, false,
    true, false)), (String ((Ascii (false, true, false, false, true, false,
    true, false)), (String ((Ascii (false, false, true, false, true, false,
    true, false)), (String ((Ascii (true, true, true, true, true, false,
    true, false)), (String ((Ascii (false, false, true, false, true, false,
    true, false)), (String ((Ascii (true, true, true, true, false, false,
    true, false)), (String ((Ascii (true, true, true, true, true, false,
    true, false)), (String ((Ascii (false, false, true, false, false, false,
    true, false)), (String ((Ascii (true, false, true, false, false, false,
    true, false)), (String ((Ascii (false, true, true, false, false, false,
    true, false)), (String ((Ascii (true, false, false, false, false, false,
    true, false)), (String ((Ascii (true, false, true, false, true, false,
    true, false)), (String ((Ascii (false, false, true, true, false, false,
    true, false)), (String ((Ascii (false, false, true, false, true, false,
    true, false)), EmptyString)))))))))))))))))))))))))))))))))), (Zpos (XO
    XH))) :: [])))) :: (((String ((Ascii (false, true, true, false, false,
    true, true, false)), (String ((Ascii (true, false, true, false, true,
    true, true, false)), (String ((Ascii (true, true, false, false, true,
    true, true, false)), (String ((Ascii (true, false, false, true, false,
    true, true, false)), (String ((Ascii (true, true, true, true, false,
    true, true, false)), (String ((Ascii (false, true, true, true, false,
    true, true, false)), (String ((Ascii (true, true, true, true, true,
    false, true, false)), (String ((Ascii (true, false, true, false, false,
    true, true, false)), (String ((Ascii (false, true, true, true, false,
    true, true, false)), (String ((Ascii (true, true, true, false, false,
    true, true, false)), (String ((Ascii (true, false, false, true, false,
    true, true, false)), (String ((Ascii (false, true, true, true, false,
    true, true, false)), (String ((Ascii (true, false, true, false, false,
    true, true, false)), (String ((Ascii (true, true, true, true, true,
    false, true, false)), (String ((Ascii (true, true, false, false, false,
    true, true, false)), (String ((Ascii (false, false, true, true, false,
    true, true, false)), (String ((Ascii (true, false, false, true, false,
    true, true, false)), (String ((Ascii (true, false, true, false, false,
    true, true, false)), (String ((Ascii (false, true, true, true, false,
    true, true, false)), (String ((Ascii (false, false, true, false, true,
    true, true, false)), (String ((Ascii (false, true, true, true, false,
    true, false, false)), (String ((Ascii (true, false, true, true, false,
    true, true, false)), (String ((Ascii (true, false, true, false, false,
    true, true, false)), (String ((Ascii (true, true, false, false, true,
    true, true, false)), (String ((Ascii (true, true, false, false, true,
    true, true, false)), (String ((Ascii (true, false, false, false, false,
    true, true, false)), (String ((Ascii (true, true, true, false, false,
    true, true, false)), (String ((Ascii (true, false, true, false, false,
    true, true, false)), (String ((Ascii (true, true, false, false, true,
    true, true, false)), (String ((Ascii (false, true, true, true, false,
    true, false, false)), (String ((Ascii (true, true, false, false, false,
    true, true, false)), (String ((Ascii (true, true, true, true, false,
    true, true, false)), (String ((Ascii (false, true, true, true, false,
    true, true, false)), (String ((Ascii (false, true, true, false, false,
    true, true, false)), (String ((Ascii (true, false, false, true, false,
    true, true, false)), (String ((Ascii (true, true, true, false, false,
    true, true, false)), (String ((Ascii (true, false, true, false, true,
    true, true, false)), (String ((Ascii (false, true, false, false, true,
    true, true, false)), (String ((Ascii (true, false, false, false, false,
    true, true, false)), (String ((Ascii (false, false, true, false, true,
    true, true, false)), (String ((Ascii (true, false, false, true, false,
    true, true, false)), (String ((Ascii (true, true, true, true, false,
    true, true, false)), (String ((Ascii (false, true, true, true, false,
    true, true, false)), (String ((Ascii (false, true, false, true, true,
    true, false, false)), (String ((Ascii (true, true, false, false, true,
    false, true, false)), (String ((Ascii (true, true, true, true, false,
    true, true, false)), (String ((Ascii (true, true, false, false, false,
    true, true, false)), (String ((Ascii (true, true, false, true, false,
    true, true, false)), (String ((Ascii (true, false, true, false, false,
    true, true, false)), (String ((Ascii (false, false, true, false, true,
    true, true, false)), (String ((Ascii (false, false, true, false, true,
    false, true, false)), (String ((Ascii (true, false, false, true, true,
    true, true, false)), (String ((Ascii (false, false, false, false, true,
    true, true, false)), (String ((Ascii (true, false, true, false, false,
    true, true, false)),
    EmptyString)))))))))))))))))))))))))))))))))))))))))))))))))))))))))))))))))))))))))))))))))))))))))))))))))))))))))))),
    (((String ((Ascii (true, false, false, true, false, false, true, false)),
    (String ((Ascii (false, true, true, true, false, false, true, false)),
    (String ((Ascii (false, true, true, false, true, false, true, false)),
    (String ((Ascii (true, false, false, false, false, false, true, false)),
    (String ((Ascii (false, false, true, true, false, false, true, false)),
    (String ((Ascii (true, false, false, true, false, false, true, false)),
    (String ((Ascii (false, false, true, false, false, false, true, false)),
    EmptyString)))))))))))))), Z0) :: (((String ((Ascii (true, true, false,
    false, true, false, true, false)), (String ((Ascii (false, false, true,
    false, true, false, true, false)), (String ((Ascii (false, true, false,
    false, true, false, true, false)), (String ((Ascii (true, false, true,
    false, false, false, true, false)), (String ((Ascii (true, false, false,
    false, false, false, true, false)), (String ((Ascii (true, false, true,
    true, false, false, true, false)), EmptyString)))))))))))), (Zpos
    XH)) :: (((String ((Ascii (false, false, true, false, false, false, true,
    false)), (String ((Ascii (true, false, false, false, false, false, true,
    false)), (String ((Ascii (false, false, true, false, true, false, true,
    false)), (String ((Ascii (true, false, false, false, false, false, true,
    false)), (String ((Ascii (true, true, true, false, false, false, true,
    false)), (String ((Ascii (false, true, false, false, true, false, true,
    false)), (String ((Ascii (true, false, false, false, false, false, true,
    false)), (String ((Ascii (true, false, true, true, false, false, true,
    false)), EmptyString)))))))))))))))), (Zpos (XO XH))) :: (((String
    ((Ascii (true, true, false, false, true, false, true, false)), (String
    ((Ascii (true, false, true, false, false, false, true, false)), (String
    ((Ascii (true, false, false, false, true, false, true, false)), (String
    ((Ascii (false, false, false, false, true, false, true, false)), (String
    ((Ascii (true, false, false, false, false, false, true, false)), (String
    ((Ascii (true, true, false, false, false, false, true, false)), (String
    ((Ascii (true, true, false, true, false, false, true, false)), (String
    ((Ascii (true, false, true, false, false, false, true, false)), (String
    ((Ascii (false, false, true, false, true, false, true, false)),
    EmptyString)))))))))))))))))), (Zpos (XI XH))) :: []))))) :: (((String
    ((Ascii (false, true, true, false, false, true, true, false)), (String
    ((Ascii (true, false, true, false, true, true, true, false)), (String
    ((Ascii (true, true, false, false, true, true, true, false)), (String
    ((Ascii (true, false, false, true, false, true, true, false)), (String
    ((Ascii (true, true, true, true, false, true, true, false)), (String
    ((Ascii (false, true, true, true, false, true, true, false)), (String
    ((Ascii (true, true, true, true, true, false, true, false)), (String
    ((Ascii (true, false, true, false, false, true, true, false)), (String
    ((Ascii (false, true, true, true, false, true, true, false)), (String
    ((Ascii (true, true, true, false, false, true, true, false)), (String
    ((Ascii (true, false, false, true, false, true, true, false)), (String
    ((Ascii (false, true, true, true, false, true, true, false)), (String
    ((Ascii (true, false, true, false, false, true, true, false)), (String
    ((Ascii (true, true, true, true, true, false, true, false)), (String
    ((Ascii (true, true, false, false, false, true, true, false)), (String
    ((Ascii (false, false, true, true, false, true, true, false)), (String
    ((Ascii (true, false, false, true, false, true, true, false)), (String
    ((Ascii (true, false, true, false, false, true, true, false)), (String
    ((Ascii (false, true, true, true, false, true, true, false)), (String
    ((Ascii (false, false, true, false, true, true, true, false)), (String
    ((Ascii (false, true, true, true, false, true, false, false)), (String
    ((Ascii (true, false, true, true, false, true, true, false)), (String
    ((Ascii (true, false, true, false, false, true, true, false)), (String
    ((Ascii (true, true, false, false, true, true, true, false)), (String
    ((Ascii (true, true, false, false, true, true, true, false)), (String
    ((Ascii (true, false, false, false, false, true, true, false)), (String
    ((Ascii (true, true, true, false, false, true, true, false)), (String
    ((Ascii (true, false, true, false, false, true, true, false)), (String
    ((Ascii (true, true, false, false, true, true, true, false)), (String
    ((Ascii (false, true, true, true, false, true, false, false)), (String
    ((Ascii (true, true, false, false, false, true, true, false)), (String
    ((Ascii (true, true, true, true, false, true, true, false)), (String
    ((Ascii (false, true, true, true, false, true, true, false)), (String
    ((Ascii (false, true, true, false, false, true, true, false)), (String
    ((Ascii (true, false, false, true, false, true, true, false)), (String
    ((Ascii (true, true, true, false, false, true, true, false)), (String
    ((Ascii (true, false, true, false, true, true, true, false)), (String
    ((Ascii (false, true, false, false, true, true, true, false)), (String
    ((Ascii (true, false, false, false, false, true, true, false)), (String
    ((Ascii (false, false, true, false, true, true, true, false)), (String
    ((Ascii (true, false, false, true, false, true, true, false)), (String
    ((Ascii (true, true, true, true, false, true, true, false)), (String
    ((Ascii (false, true, true, true, false, true, true, false)), (String
    ((Ascii (false, true, false, true, true, true, false, false)), (String
    ((Ascii (true, true, false, false, true, false, true, false)), (String
    ((Ascii (false, false, true, false, true, true, true, false)), (String
    ((Ascii (true, false, true, false, false, true, true, false)), (String
    ((Ascii (true, false, true, false, false, true, true, false)), (String
    ((Ascii (false, true, false, false, true, true, true, false)), (String
    ((Ascii (true, false, false, true, false, true, true, false)), (String
    ((Ascii (false, true, true, true, false, true, true, false)), (String
    ((Ascii (true, true, true, false, false, true, true, false)), (String
    ((Ascii (false, false, true, false, true, false, true, false)), (String
    ((Ascii (true, false, false, true, true, true, true, false)), (String
    ((Ascii (false, false, false, false, true, true, true, false)), (String
    ((Ascii (true, false, true, false, false, true, true, false)),
    EmptyString)))))))))))))))))))))))))))))))))))))))))))))))))))))))))))))))))))))))))))))))))))))))))))))))))))))))))))))))),
    (((String ((Ascii (true, false, true, false, true, false, true, false)),
    (String ((Ascii (false, true, true, true, false, false, true, false)),
    (String ((Ascii (true, true, false, true, false, false, true, false)),
    (String ((Ascii (false, true, true, true, false, false, true, false)),
    (String ((Ascii (true, true, true, true, false, false, true, false)),
    (String ((Ascii (true, true, true, false, true, false, true, false)),
    (String ((Ascii (false, true, true, true, false, false, true, false)),
    EmptyString)))))))))))))), Z0) :: (((String ((Ascii (false, true, true,
    false, false, false, true, false)), (String ((Ascii (false, true, false,
    false, true, false, true, false)), (String ((Ascii (true, true, true,
    true, false, false, true, false)), (String ((Ascii (false, true, true,
    true, false, false, true, false)), (String ((Ascii (false, false, true,
    false, true, false, true, false)), EmptyString)))))))))), (Zpos
    XH)) :: (((String ((Ascii (false, true, true, false, false, false, true,
    false)), (String ((Ascii (false, true, false, false, true, false, true,
    false)), (String ((Ascii (true, true, true, true, false, false, true,
    false)), (String ((Ascii (false, true, true, true, false, false, true,
    false)), (String ((Ascii (false, false, true, false, true, false, true,
    false)), (String ((Ascii (true, true, true, true, true, false, true,
    false)), (String ((Ascii (true, false, false, false, false, false, true,
    false)), (String ((Ascii (false, true, true, true, false, false, true,
    false)), (String ((Ascii (false, false, true, false, false, false, true,
    false)), (String ((Ascii (true, true, true, true, true, false, true,
    false)), (String ((Ascii (false, true, false, false, true, false, true,
    false)), (String ((Ascii (true, false, true, false, false, false, true,
    false)), (String ((Ascii (true, false, false, false, false, false, true,
    false)), (String ((Ascii (false, true, false, false, true, false, true,
    false)), EmptyString)))))))))))))))))))))))))))), (Zpos (XO
    XH))) :: [])))) :: (((String ((Ascii (false, true, true, false, false,
    true, true, false)), (String ((Ascii (true, false, true, false, true,
    true, true, false)), (String ((Ascii (true, true, false, false, true,
    true, true, false)), (String ((Ascii (true, false, false, true, false,
    true, true, false)), (String ((Ascii (true, true, true, true, false,
    true, true, false)), (String ((Ascii (false, true, true, true, false,
    true, true, false)), (String ((Ascii (true, true, true, true, true,
    false, true, false)), (String ((Ascii (true, false, true, false, false,
    true, true, false)), (String ((Ascii (false, true, true, true, false,
    true, true, false)), (String ((Ascii (true, true, true, false, false,
    true, true, false)), (String ((Ascii (true, false, false, true, false,
    true, true, false)), (String ((Ascii (false, true, true, true, false,
    true, true, false)), (String ((Ascii (true, false, true, false, false,
    true, true, false)), (String ((Ascii (true, true, true, true, true,
    false, true, false)), (String ((Ascii (true, true, false, false, false,
    true, true, false)), (String ((Ascii (false, false, true, true, false,
    true, true, false)), (String ((Ascii (true, false, false, true, false,
    true, true, false)), (String ((Ascii (true, false, true, false, false,
    true, true, false)), (String ((Ascii (false, true, true, true, false,
    true, true, false)), (String ((Ascii (false, false, true, false, true,
    true, true, false)), (String ((Ascii (false, true, true, true, false,
    true, false, false)), (String ((Ascii (true, false, true, true, false,
    true, true, false)), (String ((Ascii (true, false, true, false, false,
    true, true, false)), (String ((Ascii (true, true, false, false, true,
    true, true, false)), (String ((Ascii (true, true, false, false, true,
    true, true, false)), (String ((Ascii (true, false, false, false, false,
    true, true, false)), (String ((Ascii (true, true, true, false, false,
    true, true, false)), (String ((Ascii (true, false, true, false, false,
    true, true, false)), (String ((Ascii (true, true, false, false, true,
    true, true, false)), (String ((Ascii (false, true, true, true, false,
    true, false, false)), (String ((Ascii (true, true, false, false, false,
    true, true, false)), (String ((Ascii (true, true, true, true, false,
    true, true, false)), (String ((Ascii (false, true, true, true, false,
    true, true, false)), (String ((Ascii (false, true, true, false, false,
    true, true, false)), (String ((Ascii (true, false, false, true, false,
    true, true, false)), (String ((Ascii (true, true, true, false, false,
    true, true, false)), (String ((Ascii (true, false, true, false, true,
    true, true, false)), (String ((Ascii (false, true, false, false, true,
    true, true, false)), (String ((Ascii (true, false, false, false, false,
    true, true, false)), (String ((Ascii (false, false, true, false, true,
    true, true, false)), (String ((Ascii (true, false, false, true, false,
    true, true, false)), (String ((Ascii (true, true, true, true, false,
    true, true, false)), (String ((Ascii (false, true, true, true, false,
    true, true, false)), (String ((Ascii (false, true, false, true, true,
    true, false, false)), (String ((Ascii (false, false, true, false, true,
    false, true, false)), (String ((Ascii (true, false, false, true, false,
    true, true, false)), (String ((Ascii (true, true, false, false, false,
    true, true, false)), (String ((Ascii (true, true, false, true, false,
    true, true, false)), (String ((Ascii (false, false, true, false, false,
    false, true, false)), (String ((Ascii (true, false, false, true, false,
    true, true, false)), (String ((Ascii (false, true, false, false, true,
    true, true, false)), (String ((Ascii (true, false, true, false, false,
    true, true, false)), (String ((Ascii (true, true, false, false, false,
    true, true, false)), (String ((Ascii (false, false, true, false, true,
    true, true, false)), (String ((Ascii (true, false, false, true, false,
    true, true, false)), (String ((Ascii (true, true, true, true, false,
    true, true, false)), (String ((Ascii (false, true, true, true, false,
    true, true, false)),
    EmptyString)))))))))))))))))))))))))))))))))))))))))))))))))))))))))))))))))))))))))))))))))))))))))))))))))))))))))))))))))),
    (((String ((Ascii (true, true, true, true, false, false, true, false)),
    (String ((Ascii (false, true, true, false, false, false, true, false)),
    (String ((Ascii (false, true, true, false, false, false, true, false)),
    EmptyString)))))), Z0) :: (((String ((Ascii (false, true, true, false,
    false, false, true, false)), (String ((Ascii (true, true, true, true,
    false, false, true, false)), (String ((Ascii (false, true, false, false,
    true, false, true, false)), (String ((Ascii (true, true, true, false,
    true, false, true, false)), (String ((Ascii (true, false, false, false,
    false, false, true, false)), (String ((Ascii (false, true, false, false,
    true, false, true, false)), (String ((Ascii (false, false, true, false,
    false, false, true, false)), (String ((Ascii (true, true, true, true,
    true, false, true, false)), (String ((Ascii (true, false, false, false,
    false, false, true, false)), (String ((Ascii (true, true, false, false,
    false, false, true, false)), (String ((Ascii (false, false, true, false,
    true, false, true, false)), (String ((Ascii (true, false, false, true,
    false, false, true, false)), (String ((Ascii (false, true, true, false,
    true, false, true, false)), (String ((Ascii (true, false, true, false,
    false, false, true, false)), (String ((Ascii (true, true, true, true,
    true, false, true, false)), (String ((Ascii (false, false, false, true,
    false, false, true, false)), (String ((Ascii (true, false, false, true,
    false, false, true, false)), (String ((Ascii (true, true, true, false,
    false, false, true, false)), (String ((Ascii (false, false, false, true,
    false, false, true, false)),
    EmptyString)))))))))))))))))))))))))))))))))))))), (Zpos
    XH)) :: (((String ((Ascii (false, true, true, false, false, false, true,
    false)), (String ((Ascii (true, true, true, true, false, false, true,
    false)), (String ((Ascii (false, true, false, false, true, false, true,
    false)), (String ((Ascii (true, true, true, false, true, false, true,
    false)), (String ((Ascii (true, false, false, false, false, false, true,
    false)), (String ((Ascii (false, true, false, false, true, false, true,
    false)), (String ((Ascii (false, false, true, false, false, false, true,
    false)), (String ((Ascii (true, true, true, true, true, false, true,
    false)), (String ((Ascii (true, false, false, false, false, false, true,
    false)), (String ((Ascii (true, true, false, false, false, false, true,
    false)), (String ((Ascii (false, false, true, false, true, false, true,
    false)), (String ((Ascii (true, false, false, true, false, false, true,
    false)), (String ((Ascii (false, true, true, false, true, false, true,
    false)), (String ((Ascii (true, false, true, false, false, false, true,
    false)), (String ((Ascii (true, true, true, true, true, false, true,
    false)), (String ((Ascii (false, false, true, true, false, false, true,
    false)), (String ((Ascii (true, true, true, true, false, false, true,
    false)), (String ((Ascii (true, true, true, false, true, false, true,
    false)), EmptyString)))))))))))))))))))))))))))))))))))), (Zpos (XO
    XH))) :: [])))) :: (((String ((Ascii (false, true, true, false, false,
    true, true, false)), (String ((Ascii (true, false, true, false, true,
    true, true, false)), (String ((Ascii (true, true, false, false, true,
    true, true, false)), (String ((Ascii (true, false, false, true, false,
    true, true, false)), (String ((Ascii (true, true, true, true, false,
    true, true, false)), (String ((Ascii (false, true, true, true, false,
    true, true, false)), (String ((Ascii (true, true, true, true, true,
    false, true, false)), (String ((Ascii (true, false, true, false, false,
    true, true, false)), (String ((Ascii (false, true, true, true, false,
    true, true, false)), (String ((Ascii (true, true, true, false, false,
    true, true, false)), (String ((Ascii (true, false, false, true, false,
    true, true, false)), (String ((Ascii (false, true, true, true, false,
    true, true, false)), (String ((Ascii (true, false, true, false, false,
    true, true, false)), (String ((Ascii (true, true, true, true, true,
    false, true, false)), (String ((Ascii (true, true, false, false, false,
    true, true, false)), (String ((Ascii (false, false, true, true, false,
    true, true, false)), (String ((Ascii (true, false, false, true, false,
    true, true, false)), (String ((Ascii (true, false, true, false, false,
    true, true, false)), (String ((Ascii (false, true, true, true, false,
    true, true, false)), (String ((Ascii (false, false, true, false, true,
    true, true, false)), (String ((Ascii (false, true, true, true, false,
    true, false, false)), (String ((Ascii (true, false, true, true, false,
    true, true, false)), (String ((Ascii (true, false, true, false, false,
    true, true, false)), (String ((Ascii (true, true, false, false, true,
    true, true, false)), (String ((Ascii (true, true, false, false, true,
    true, true, false)), (String ((Ascii (true, false, false, false, false,
    true, true, false)), (String ((Ascii (true, true, true, false, false,
    true, true, false)), (String ((Ascii (true, false, true, false, false,
    true, true, false)), (String ((Ascii (true, true, false, false, true,
    true, true, false)), (String ((Ascii (false, true, true, true, false,
    true, false, false)), (String ((Ascii (true, true, false, false, false,
    true, true, false)), (String ((Ascii (true, true, true, true, false,
    true, true, false)), (String ((Ascii (false, true, true, true, false,
    true, true, false)), (String ((Ascii (false, true, true, false, false,
    true, true, false)), (String ((Ascii (true, false, false, true, false,
    true, true, false)), (String ((Ascii (true, true, true, false, false,
    true, true, false)), (String ((Ascii (true, false, true, false, true,
    true, true, false)), (String ((Ascii (false, true, false, false, true,
    true, true, false)), (String ((Ascii (true, false, false, false, false,
    true, true, false)), (String ((Ascii (false, false, true, false, true,
    true, true, false)), (String ((Ascii (true, false, false, true, false,
    true, true, false)), (String ((Ascii (true, true, true, true, false,
    true, true, false)), (String ((Ascii (false, true, true, true, false,
    true, true, false)), (String ((Ascii (false, true, false, true, true,
    true, false, false)), (String ((Ascii (false, false, true, false, true,
    false, true, false)), (String ((Ascii (true, false, false, true, false,
    true, true, false)), (String ((Ascii (true, true, false, false, false,
    true, true, false)), (String ((Ascii (true, true, false, true, false,
    true, true, false)), (String ((Ascii (true, false, true, true, false,
    false, true, false)), (String ((Ascii (true, true, true, true, false,
    true, true, false)), (String ((Ascii (false, false, true, false, false,
    true, true, false)), (String ((Ascii (true, false, true, false, false,
    true, true, false)),
    EmptyString)))))))))))))))))))))))))))))))))))))))))))))))))))))))))))))))))))))))))))))))))))))))))))))))))))))))),
    (((String ((Ascii (true, true, true, true, false, false, true, false)),
    (String ((Ascii (false, true, true, false, false, false, true, false)),
    (String ((Ascii (false, true, true, false, false, false, true, false)),
    EmptyString)))))), Z0) :: (((String ((Ascii (false, true, false, false,
    true, false, true, false)), (String ((Ascii (true, false, false, true,
    false, false, true, false)), (String ((Ascii (true, true, false, false,
    true, false, true, false)), (String ((Ascii (true, false, false, true,
    false, false, true, false)), (String ((Ascii (false, true, true, true,
    false, false, true, false)), (String ((Ascii (true, true, true, false,
    false, false, true, false)), (String ((Ascii (true, true, true, true,
    true, false, true, false)), (String ((Ascii (true, false, true, false,
    false, false, true, false)), (String ((Ascii (false, false, true, false,
    false, false, true, false)), (String ((Ascii (true, true, true, false,
    false, false, true, false)), (String ((Ascii (true, false, true, false,
    false, false, true, false)), EmptyString)))))))))))))))))))))), (Zpos
    XH)) :: (((String ((Ascii (false, true, true, false, false, false, true,
    false)), (String ((Ascii (true, false, false, false, false, false, true,
    false)), (String ((Ascii (false, false, true, true, false, false, true,
    false)), (String ((Ascii (false, false, true, true, false, false, true,
    false)), (String ((Ascii (true, false, false, true, false, false, true,
    false)), (String ((Ascii (false, true, true, true, false, false, true,
    false)), (String ((Ascii (true, true, true, false, false, false, true,
    false)), (String ((Ascii (true, true, true, true, true, false, true,
    false)), (String ((Ascii (true, false, true, false, false, false, true,
    false)), (String ((Ascii (false, false, true, false, false, false, true,
    false)), (String ((Ascii (true, true, true, false, false, false, true,
    false)), (String ((Ascii (true, false, true, false, false, false, true,
    false)), EmptyString)))))))))))))))))))))))), (Zpos (XO
    XH))) :: [])))) :: (((String ((Ascii (false, true, true, false, false,
    true, true, false)), (String ((Ascii (true, false, true, false, true,
    true, true, false)), (String ((Ascii (true, true, false, false, true,
    true, true, false)), (String ((Ascii (true, false, false, true, false,
    true, true, false)), (String ((Ascii (true, true, true, true, false,
    true, true, false)), (String ((Ascii (false, true, true, true, false,
    true, true, false)), (String ((Ascii (true, true, true, true, true,
    false, true, false)), (String ((Ascii (true, false, true, false, false,
    true, true, false)), (String ((Ascii (false, true, true, true, false,
    true, true, false)), (String ((Ascii (true, true, true, false, false,
    true, true, false)), (String ((Ascii (true, false, false, true, false,
    true, true, false)), (String ((Ascii (false, true, true, true, false,
    true, true, false)), (String ((Ascii (true, false, true, false, false,
    true, true, false)), (String ((Ascii (true, true, true, true, true,
    false, true, false)), (String ((Ascii (true, true, false, false, false,
    true, true, false)), (String ((Ascii (false, false, true, true, false,
    true, true, false)), (String ((Ascii (true, false, false, true, false,
    true, true, false)), (String ((Ascii (true, false, true, false, false,
    true, true, false)), (String ((Ascii (false, true, true, true, false,
    true, true, false)), (String ((Ascii (false, false, true, false, true,
    true, true, false)), (String ((Ascii (false, true, true, true, false,
    true, false, false)), (String ((Ascii (true, false, true, true, false,
    true, true, false)), (String ((Ascii (true, false, true, false, false,
    true, true, false)), (String ((Ascii (true, true, false, false, true,
    true, true, false)), (String ((Ascii (true, true, false, false, true,
    true, true, false)), (String ((Ascii (true, false, false, false, false,
    true, true, false)), (String ((Ascii (true, true, true, false, false,
    true, true, false)), (String ((Ascii (true, false, true, false, false,
    true, true, false)), (String ((Ascii (true, true, false, false, true,
    true, true, false)), (String ((Ascii (false, true, true, true, false,
    true, false, false)), (String ((Ascii (true, true, false, false, false,
    true, true, false)), (String ((Ascii (true, true, true, true, false,
    true, true, false)), (String ((Ascii (false, true, true, true, false,
    true, true, false)), (String ((Ascii (false, true, true, false, false,
    true, true, false)), (String ((Ascii (true, false, false, true, false,
    true, true, false)), (String ((Ascii (true, true, true, false, false,
    true, true, false)), (String ((Ascii (true, false, true, false, true,
    true, true, false)), (String ((Ascii (false, true, false, false, true,
    true, true, false)), (String ((Ascii (true, false, false, false, false,
    true, true, false)), (String ((Ascii (false, false, true, false, true,
    true, true, false)), (String ((Ascii (true, false, false, true, false,
    true, true, false)), (String ((Ascii (true, true, true, true, false,
    true, true, false)), (String ((Ascii (false, true, true, true, false,
    true, true, false)), (String ((Ascii (false, true, false, true, true,
    true, false, false)), (String ((Ascii (false, false, true, false, true,
    false, true, false)), (String ((Ascii (false, true, false, false, true,
    true, true, false)), (String ((Ascii (true, false, false, false, false,
    true, true, false)), (String ((Ascii (false, true, true, true, false,
    true, true, false)), (String ((Ascii (true, true, false, false, true,
    true, true, false)), (String ((Ascii (false, false, false, false, true,
    true, true, false)), (String ((Ascii (true, true, true, true, false,
    true, true, false)), (String ((Ascii (false, true, false, false, true,
    true, true, false)), (String ((Ascii (false, false, true, false, true,
    true, true, false)), (String ((Ascii (false, false, true, false, false,
    false, true, false)), (String ((Ascii (true, false, false, true, false,
    true, true, false)), (String ((Ascii (false, true, false, false, true,
    true, true, false)), (String ((Ascii (true, false, true, false, false,
    true, true, false)), (String ((Ascii (true, true, false, false, false,
    true, true, false)), (String ((Ascii (false, false, true, false, true,
    true, true, false)), (String ((Ascii (true, false, false, true, false,
    true, true, false)), (String ((Ascii (true, true, true, true, false,
    true, true, false)), (String ((Ascii (false, true, true, true, false,
    true, true, false)),
    EmptyString)))))))))))))))))))))))))))))))))))))))))))))))))))))))))))))))))))))))))))))))))))))))))))))))))))))))))))))))))))))))))))),
    (((String ((Ascii (true, false, false, true, false, false, true, false)),
    (String ((Ascii (false, true, true, true, false, false, true, false)),
    (String ((Ascii (false, true, true, false, true, false, true, false)),
    (String ((Ascii (true, false, false, false, false, false, true, false)),
    (String ((Ascii (false, false, true, true, false, false, true, false)),
    (String ((Ascii (true, false, false, true, false, false, true, false)),
    (String ((Ascii (false, false, true, false, false, false, true, false)),
    EmptyString)))))))))))))), Z0) :: (((String ((Ascii (true, true, false,
    false, true, false, true, false)), (String ((Ascii (true, false, true,
    false, false, false, true, false)), (String ((Ascii (false, true, false,
    false, true, false, true, false)), (String ((Ascii (false, true, true,
    false, true, false, true, false)), (String ((Ascii (true, false, true,
    false, false, false, true, false)), (String ((Ascii (false, true, false,
    false, true, false, true, false)), EmptyString)))))))))))), (Zpos
    XH)) :: (((String ((Ascii (true, true, false, false, false, false, true,
    false)), (String ((Ascii (false, false, true, true, false, false, true,
    false)), (String ((Ascii (true, false, false, true, false, false, true,
    false)), (String ((Ascii (true, false, true, false, false, false, true,
    false)), (String ((Ascii (false, true, true, true, false, false, true,
    false)), (String ((Ascii (false, false, true, false, true, false, true,
    false)), EmptyString)))))))))))), (Zpos (XO XH))) :: [])))) :: (((String
    ((Ascii (false, true, true, false, false, true, true, false)), (String
    ((Ascii (true, false, true, false, true, true, true, false)), (String
    ((Ascii (true, true, false, false, true, true, true, false)), (String
    ((Ascii (true, false, false, true, false, true, true, false)), (String
    ((Ascii (true, true, true, true, false, true, true, false)), (String
    ((Ascii (false, true, true, true, false, true, true, false)), (String
    ((Ascii (true, true, true, true, true, false, true, false)), (String
    ((Ascii (true, false, true, false, false, true, true, false)), (String
    ((Ascii (false, true, true, true, false, true, true, false)), (String
    ((Ascii (true, true, true, false, false, true, true, false)), (String
    ((Ascii (true, false, false, true, false, true, true, false)), (String
    ((Ascii (false, true, true, true, false, true, true, false)), (String
    ((Ascii (true, false, true, false, false, true, true, false)), (String
    ((Ascii (true, true, true, true, true, false, true, false)), (String
    ((Ascii (true, true, false, false, false, true, true, false)), (String
    ((Ascii (false, false, true, true, false, true, true, false)), (String
    ((Ascii (true, false, false, true, false, true, true, false)), (String
    ((Ascii (true, false, true, false, false, true, true, false)), (String
    ((Ascii (false, true, true, true, false, true, true, false)), (String
    ((Ascii (false, false, true, false, true, true, true, false)), (String
    ((Ascii (false, true, true, true, false, true, false, false)), (String
    ((Ascii (true, false, true, true, false, true, true, false)), (String
    ((Ascii (true, false, true, false, false, true, true, false)), (String
    ((Ascii (true, true, false, false, true, true, true, false)), (String
    ((Ascii (true, true, false, false, true, true, true, false)), (String
    ((Ascii (true, false, false, false, false, true, true, false)), (String
    ((Ascii (true, true, true, false, false, true, true, false)), (String
    ((Ascii (true, false, true, false, false, true, true, false)), (String
    ((Ascii (true, true, false, false, true, true, true, false)), (String
    ((Ascii (false, true, true, true, false, true, false, false)), (String
    ((Ascii (true, true, false, false, false, true, true, false)), (String
    ((Ascii (true, true, true, true, false, true, true, false)), (String
    ((Ascii (false, true, true, true, false, true, true, false)), (String
    ((Ascii (false, true, true, false, false, true, true, false)), (String
    ((Ascii (true, false, false, true, false, true, true, false)), (String
    ((Ascii (true, true, true, false, false, true, true, false)), (String
    ((Ascii (true, false, true, false, true, true, true, false)), (String
    ((Ascii (false, true, false, false, true, true, true, false)), (String
    ((Ascii (true, false, false, false, false, true, true, false)), (String
    ((Ascii (false, false, true, false, true, true, true, false)), (String
    ((Ascii (true, false, false, true, false, true, true, false)), (String
    ((Ascii (true, true, true, true, false, true, true, false)), (String
    ((Ascii (false, true, true, true, false, true, true, false)), (String
    ((Ascii (false, true, false, true, true, true, false, false)), (String
    ((Ascii (false, false, true, false, true, false, true, false)), (String
    ((Ascii (false, true, false, false, true, true, true, false)), (String
    ((Ascii (true, false, false, false, false, true, true, false)), (String
    ((Ascii (false, true, true, true, false, true, true, false)), (String
    ((Ascii (true, true, false, false, true, true, true, false)), (String
    ((Ascii (false, false, false, false, true, true, true, false)), (String
    ((Ascii (true, true, true, true, false, true, true, false)), (String
    ((Ascii (false, true, false, false, true, true, true, false)), (String
    ((Ascii (false, false, true, false, true, true, true, false)), (String
    ((Ascii (false, false, true, false, true, false, true, false)), (String
    ((Ascii (true, false, false, true, true, true, true, false)), (String
    ((Ascii (false, false, false, false, true, true, true, false)), (String
    ((Ascii (true, false, true, false, false, true, true, false)),
    EmptyString)))))))))))))))))))))))))))))))))))))))))))))))))))))))))))))))))))))))))))))))))))))))))))))))))))))))))))))))))),
    (((String ((Ascii (true, false, false, true, false, false, true, false)),
    (String ((Ascii (false, true, true, true, false, false, true, false)),
    (String ((Ascii (false, true, true, false, true, false, true, false)),
    (String ((Ascii (true, false, false, false, false, false, true, false)),
    (String ((Ascii (false, false, true, true, false, false, true, false)),
    (String ((Ascii (true, false, false, true, false, false, true, false)),
    (String ((Ascii (false, false, true, false, false, false, true, false)),
    EmptyString)))))))))))))), Z0) :: (((String ((Ascii (true, true, false,
    false, true, false, true, false)), (String ((Ascii (true, false, true,
    false, false, false, true, false)), (String ((Ascii (false, true, false,
    false, true, false, true, false)), (String ((Ascii (true, false, false,
    true, false, false, true, false)), (String ((Ascii (true, false, false,
    false, false, false, true, false)), (String ((Ascii (false, false, true,
    true, false, false, true, false)), EmptyString)))))))))))), (Zpos
    XH)) :: (((String ((Ascii (false, true, true, false, false, false, true,
    false)), (String ((Ascii (true, false, false, true, false, false, true,
    false)), (String ((Ascii (false, false, true, true, false, false, true,
    false)), (String ((Ascii (true, false, true, false, false, false, true,
    false)), EmptyString)))))))), (Zpos (XO XH))) :: (((String ((Ascii
    (false, false, true, false, true, false, true, false)), (String ((Ascii
    (true, true, false, false, false, false, true, false)), (String ((Ascii
    (false, false, false, false, true, false, true, false)),
    EmptyString)))))), (Zpos (XO (XO XH)))) :: (((String ((Ascii (true,
    false, true, false, true, false, true, false)), (String ((Ascii (false,
    false, true, false, false, false, true, false)), (String ((Ascii (false,
    false, false, false, true, false, true, false)), EmptyString)))))), (Zpos
    (XI (XO XH)))) :: (((String ((Ascii (true, true, true, false, true,
    false, true, false)), (String ((Ascii (true, false, true, false, false,
    false, true, false)), (String ((Ascii (false, true, false, false, false,
    false, true, false)), (String ((Ascii (true, true, false, false, true,
    false, true, false)), (String ((Ascii (true, true, true, true, false,
    false, true, false)), (String ((Ascii (true, true, false, false, false,
    false, true, false)), (String ((Ascii (true, true, false, true, false,
    false, true, false)), (String ((Ascii (true, false, true, false, false,
    false, true, false)), (String ((Ascii (false, false, true, false, true,
    false, true, false)), EmptyString)))))))))))))))))), (Zpos (XI (XI
    XH)))) :: (((String ((Ascii (true, false, true, false, true, false, true,
    false)), (String ((Ascii (false, true, true, true, false, false, true,
    false)), (String ((Ascii (true, false, false, true, false, false, true,
    false)), (String ((Ascii (false, false, false, true, true, false, true,
    false)), EmptyString)))))))), (Zpos (XO (XO (XO XH))))) :: (((String
    ((Ascii (true, true, false, false, false, false, true, false)), (String
    ((Ascii (true, false, true, false, true, false, true, false)), (String
    ((Ascii (false, true, false, false, true, false, true, false)), (String
    ((Ascii (false, true, false, false, true, false, true, false)), (String
    ((Ascii (true, false, true, false, false, false, true, false)), (String
    ((Ascii (false, true, true, true, false, false, true, false)), (String
    ((Ascii (false, false, true, false, true, false, true, false)),
    EmptyString)))))))))))))), (Zpos (XO (XI (XI (XI (XI (XI (XI
    XH))))))))) :: (((String ((Ascii (true, false, false, false, false,
    false, true, false)), (String ((Ascii (false, false, true, true, false,
    false, true, false)), (String ((Ascii (false, false, true, true, false,
    false, true, false)), EmptyString)))))), (Zpos (XI (XI (XI (XI (XI (XI
    (XI XH))))))))) :: [])))))))))) :: (((String ((Ascii (false, true, true,
    false, false, true, true, false)), (String ((Ascii (true, false, true,
    false, true, true, true, false)), (String ((Ascii (true, true, false,
    false, true, true, true, false)), (String ((Ascii (true, false, false,
    true, false, true, true, false)), (String ((Ascii (true, true, true,
    true, false, true, true, false)), (String ((Ascii (false, true, true,
    true, false, true, true, false)), (String ((Ascii (true, true, true,
    true, true, false, true, false)), (String ((Ascii (true, false, true,
    false, false, true, true, false)), (String ((Ascii (false, true, true,
    true, false, true, true, false)), (String ((Ascii (true, true, true,
    false, false, true, true, false)), (String ((Ascii (true, false, false,
    true, false, true, true, false)), (String ((Ascii (false, true, true,
    true, false, true, true, false)), (String ((Ascii (true, false, true,
    false, false, true, true, false)), (String ((Ascii (true, true, true,
    true, true, false, true, false)), (String ((Ascii (true, true, false,
    false, false, true, true, false)), (String ((Ascii (false, false, true,
    true, false, true, true, false)), (String ((Ascii (true, false, false,
    true, false, true, true, false)), (String ((Ascii (true, false, true,
    false, false, true, true, false)), (String ((Ascii (false, true, true,
    true, false, true, true, false)), (String ((Ascii (false, false, true,
    false, true, true, true, false)), (String ((Ascii (false, true, true,
    true, false, true, false, false)), (String ((Ascii (true, false, true,
    true, false, true, true, false)), (String ((Ascii (true, false, true,
    false, false, true, true, false)), (String ((Ascii (true, true, false,
    false, true, true, true, false)), (String ((Ascii (true, true, false,
    false, true, true, true, false)), (String ((Ascii (true, false, false,
    false, false, true, true, false)), (String ((Ascii (true, true, true,
    false, false, true, true, false)), (String ((Ascii (true, false, true,
    false, false, true, true, false)), (String ((Ascii (true, true, false,
    false, true, true, true, false)), (String ((Ascii (false, true, true,
    true, false, true, false, false)), (String ((Ascii (true, true, false,
    false, false, true, true, false)), (String ((Ascii (true, true, true,
    true, false, true, true, false)), (String ((Ascii (false, true, true,
    true, false, true, true, false)), (String ((Ascii (false, true, true,
    false, false, true, true, false)), (String ((Ascii (true, false, false,
    true, false, true, true, false)), (String ((Ascii (true, true, true,
    false, false, true, true, false)), (String ((Ascii (true, false, true,
    false, true, true, true, false)), (String ((Ascii (false, true, false,
    false, true, true, true, false)), (String ((Ascii (true, false, false,
    false, false, true, true, false)), (String ((Ascii (false, false, true,
    false, true, true, true, false)), (String ((Ascii (true, false, false,
    true, false, true, true, false)), (String ((Ascii (true, true, true,
    true, false, true, true, false)), (String ((Ascii (false, true, true,
    true, false, true, true, false)), (String ((Ascii (false, true, false,
    true, true, true, false, false)), (String ((Ascii (false, false, true,
    false, true, false, true, false)), (String ((Ascii (false, true, false,
    false, true, true, true, false)), (String ((Ascii (true, true, true,
    true, false, true, true, false)), (String ((Ascii (false, false, false,
    false, true, true, true, false)), (String ((Ascii (true, true, true,
    true, false, true, true, false)), (String ((Ascii (false, false, true,
    false, false, false, true, false)), (String ((Ascii (true, false, true,
    false, false, true, true, false)), (String ((Ascii (false, false, true,
    true, false, true, true, false)), (String ((Ascii (true, false, false,
    false, false, true, true, false)), (String ((Ascii (true, false, false,
    true, true, true, true, false)), (String ((Ascii (true, false, true,
    true, false, false, true, false)), (String ((Ascii (true, true, true,
    true, false, true, true, false)), (String ((Ascii (false, false, true,
    false, false, true, true, false)), (String ((Ascii (true, false, true,
    false, false, true, true, false)), (String ((Ascii (false, false, true,
    true, false, true, true, false)),
    EmptyString)))))))))))))))))))))))))))))))))))))))))))))))))))))))))))))))))))))))))))))))))))))))))))))))))))))))))))))))))))))),
    (((String ((Ascii (true, false, false, false, false, false, true,
    false)), (String ((Ascii (true, false, true, false, true, false, true,
    false)), (String ((Ascii (false, false, true, false, true, false, true,
    false)), (String ((Ascii (true, true, true, true, false, false, true,
    false)), EmptyString)))))))), Z0) :: (((String ((Ascii (true, true, true,
    true, false, false, true, false)), (String ((Ascii (false, true, true,
    false, false, false, true, false)), (String ((Ascii (false, true, true,
    false, false, false, true, false)), EmptyString)))))), (Zpos
    XH)) :: (((String ((Ascii (true, true, false, false, true, false, true,
    false)), (String ((Ascii (true, false, false, false, false, false, true,
    false)), (String ((Ascii (true, false, false, false, false, false, true,
    false)), (String ((Ascii (true, true, false, false, true, false, true,
    false)), (String ((Ascii (false, false, true, false, true, false, true,
    false)), (String ((Ascii (true, false, false, false, false, false, true,
    false)), (String ((Ascii (true, false, true, true, false, false, true,
    false)), (String ((Ascii (true, true, true, true, false, false, true,
    false)), (String ((Ascii (true, false, false, true, false, false, true,
    false)), (String ((Ascii (false, true, true, true, false, false, true,
    false)), (String ((Ascii (true, false, true, false, false, false, true,
    false)), (String ((Ascii (false, true, true, true, false, false, true,
    false)), EmptyString)))))))))))))))))))))))), (Zpos (XO
    XH))) :: [])))) :: (((String ((Ascii (false, true, true, false, false,
    true, true, false)), (String ((Ascii (true, false, true, false, true,
    true, true, false)), (String ((Ascii (true, true, false, false, true,
    true, true, false)), (String ((Ascii (true, false, false, true, false,
    true, true, false)), (String ((Ascii (true, true, true, true, false,
    true, true, false)), (String ((Ascii (false, true, true, true, false,
    true, true, false)), (String ((Ascii (true, true, true, true, true,
    false, true, false)), (String ((Ascii (true, false, true, false, false,
    true, true, false)), (String ((Ascii (false, true, true, true, false,
    true, true, false)), (String ((Ascii (true, true, true, false, false,
    true, true, false)), (String ((Ascii (true, false, false, true, false,
    true, true, false)), (String ((Ascii (false, true, true, true, false,
    true, true, false)), (String ((Ascii (true, false, true, false, false,
    true, true, false)), (String ((Ascii (true, true, true, true, true,
    false, true, false)), (String ((Ascii (true, true, false, false, false,
    true, true, false)), (String ((Ascii (false, false, true, true, false,
    true, true, false)), (String ((Ascii (true, false, false, true, false,
    true, true, false)), (String ((Ascii (true, false, true, false, false,
    true, true, false)), (String ((Ascii (false, true, true, true, false,
    true, true, false)), (String ((Ascii (false, false, true, false, true,
    true, true, false)), (String ((Ascii (false, true, true, true, false,
    true, false, false)), (String ((Ascii (true, false, true, true, false,
    true, true, false)), (String ((Ascii (true, false, true, false, false,
    true, true, false)), (String ((Ascii (true, true, false, false, true,
    true, true, false)), (String ((Ascii (true, true, false, false, true,
    true, true, false)), (String ((Ascii (true, false, false, false, false,
    true, true, false)), (String ((Ascii (true, true, true, false, false,
    true, true, false)), (String ((Ascii (true, false, true, false, false,
    true, true, false)), (String ((Ascii (true, true, false, false, true,
    true, true, false)), (String ((Ascii (false, true, true, true, false,
    true, false, false)), (String ((Ascii (true, true, false, false, false,
    true, true, false)), (String ((Ascii (true, true, true, true, false,
    true, true, false)), (String ((Ascii (false, true, true, true, false,
    true, true, false)), (String ((Ascii (false, true, true, false, false,
    true, true, false)), (String ((Ascii (true, false, false, true, false,
    true, true, false)), (String ((Ascii (true, true, true, false, false,
    true, true, false)), (String ((Ascii (true, false, true, false, true,
    true, true, false)), (String ((Ascii (false, true, false, false, true,
    true, true, false)), (String ((Ascii (true, false, false, false, false,
    true, true, false)), (String ((Ascii (false, false, true, false, true,
    true, true, false)), (String ((Ascii (true, false, false, true, false,
    true, true, false)), (String ((Ascii (true, true, true, true, false,
    true, true, false)), (String ((Ascii (false, true, true, true, false,
    true, true, false)), (String ((Ascii (false, true, false, true, true,
    true, false, false)), (String ((Ascii (true, false, true, false, true,
    false, true, false)), (String ((Ascii (false, false, false, false, true,
    true, true, false)), (String ((Ascii (false, false, true, false, false,
    true, true, false)), (String ((Ascii (true, false, false, false, false,
    true, true, false)), (String ((Ascii (false, false, true, false, true,
    true, true, false)), (String ((Ascii (true, false, true, false, false,
    true, true, false)), (String ((Ascii (true, false, false, false, false,
    false, true, false)), (String ((Ascii (true, true, false, false, false,
    true, true, false)), (String ((Ascii (false, false, true, false, true,
    true, true, false)), (String ((Ascii (true, false, false, true, false,
    true, true, false)), (String ((Ascii (true, true, true, true, false,
    true, true, false)), (String ((Ascii (false, true, true, true, false,
    true, true, false)),
    EmptyString)))))))))))))))))))))))))))))))))))))))))))))))))))))))))))))))))))))))))))))))))))))))))))))))))))))))))))))))),
    (((String ((Ascii (false, true, false, false, true, false, true, false)),
    (String ((Ascii (true, false, true, false, false, false, true, false)),
    (String ((Ascii (false, false, false, false, true, false, true, false)),
    (String ((Ascii (false, false, true, true, false, false, true, false)),
    (String ((Ascii (true, false, false, false, false, false, true, false)),
    (String ((Ascii (true, true, false, false, false, false, true, false)),
    (String ((Ascii (true, false, true, false, false, false, true, false)),
    EmptyString)))))))))))))), Z0) :: [])) :: (((String ((Ascii (false, true,
    true, false, false, true, true, false)), (String ((Ascii (true, false,
    true, false, true, true, true, false)), (String ((Ascii (true, true,
    false, false, true, true, true, false)), (String ((Ascii (true, false,
    false, true, false, true, true, false)), (String ((Ascii (true, true,
    true, true, false, true, true, false)), (String ((Ascii (false, true,
    true, true, false, true, true, false)), (String ((Ascii (true, true,
    true, true, true, false, true, false)), (String ((Ascii (true, false,
    true, false, false, true, true, false)), (String ((Ascii (false, true,
    true, true, false, true, true, false)), (String ((Ascii (true, true,
    true, false, false, true, true, false)), (String ((Ascii (true, false,
    false, true, false, true, true, false)), (String ((Ascii (false, true,
    true, true, false, true, true, false)), (String ((Ascii (true, false,
    true, false, false, true, true, false)), (String ((Ascii (true, true,
    true, true, true, false, true, false)), (String ((Ascii (true, true,
    false, false, false, true, true, false)), (String ((Ascii (false, false,
    true, true, false, true, true, false)), (String ((Ascii (true, false,
    false, true, false, true, true, false)), (String ((Ascii (true, false,
    true, false, false, true, true, false)), (String ((Ascii (false, true,
    true, true, false, true, true, false)), (String ((Ascii (false, false,
    true, false, true, true, true, false)), (String ((Ascii (false, true,
    true, true, false, true, false, false)), (String ((Ascii (true, false,
    true, true, false, true, true, false)), (String ((Ascii (true, false,
    true, false, false, true, true, false)), (String ((Ascii (true, true,
    false, false, true, true, true, false)), (String ((Ascii (true, true,
    false, false, true, true, true, false)), (String ((Ascii (true, false,
    false, false, false, true, true, false)), (String ((Ascii (true, true,
    true, false, false, true, true, false)), (String ((Ascii (true, false,
    true, false, false, true, true, false)), (String ((Ascii (true, true,
    false, false, true, true, true, false)), (String ((Ascii (false, true,
    true, true, false, true, false, false)), (String ((Ascii (true, true,
    false, false, false, true, true, false)), (String ((Ascii (true, true,
    true, true, false, true, true, false)), (String ((Ascii (false, true,
    true, true, false, true, true, false)), (String ((Ascii (false, true,
    true, false, false, true, true, false)), (String ((Ascii (true, false,
    false, true, false, true, true, false)), (String ((Ascii (true, true,
    true, false, false, true, true, false)), (String ((Ascii (true, false,
    true, false, true, true, true, false)), (String ((Ascii (false, true,
    false, false, true, true, true, false)), (String ((Ascii (true, false,
    false, false, false, true, true, false)), (String ((Ascii (false, false,
    true, false, true, true, true, false)), (String ((Ascii (true, false,
    false, true, false, true, true, false)), (String ((Ascii (true, true,
    true, true, false, true, true, false)), (String ((Ascii (false, true,
    true, true, false, true, true, false)), (String ((Ascii (false, true,
    false, true, true, true, false, false)), (String ((Ascii (false, true,
    true, false, true, false, true, false)), (String ((Ascii (true, false,
    true, false, false, true, true, false)), (String ((Ascii (false, false,
    false, true, false, true, true, false)), (String ((Ascii (true, false,
    false, true, false, true, true, false)), (String ((Ascii (true, true,
    false, false, false, true, true, false)), (String ((Ascii (false, false,
    true, true, false, true, true, false)), (String ((Ascii (true, false,
    true, false, false, true, true, false)), (String ((Ascii (true, false,
    true, true, false, false, true, false)), (String ((Ascii (true, true,
    true, true, false, true, true, false)), (String ((Ascii (false, false,
    true, false, false, true, true, false)), (String ((Ascii (true, false,
    true, false, false, true, true, false)), (String ((Ascii (false, false,
    true, true, false, true, true, false)),
    EmptyString)))))))))))))))))))))))))))))))))))))))))))))))))))))))))))))))))))))))))))))))))))))))))))))))))))))))))))))))),
    (((String ((Ascii (true, false, true, false, true, false, true, false)),
    (String ((Ascii (false, true, true, true, false, false, true, false)),
    (String ((Ascii (true, true, false, true, false, false, true, false)),
    (String ((Ascii (false, true, true, true, false, false, true, false)),
    (String ((Ascii (true, true, true, true, false, false, true, false)),
    (String ((Ascii (true, true, true, false, true, false, true, false)),
    (String ((Ascii (false, true, true, true, false, false, true, false)),
    (String ((Ascii (true, true, true, true, true, false, true, false)),
    (String ((Ascii (false, true, true, false, true, false, true, false)),
    (String ((Ascii (true, false, true, false, false, false, true, false)),
    (String ((Ascii (false, false, false, true, false, false, true, false)),
    (String ((Ascii (true, false, false, true, false, false, true, false)),
    (String ((Ascii (true, true, false, false, false, false, true, false)),
    (String ((Ascii (false, false, true, true, false, false, true, false)),
    (String ((Ascii (true, false, true, false, false, false, true, false)),
    EmptyString)))))))))))))))))))))))))))))), Z0) :: (((String ((Ascii
    (false, false, true, false, false, false, true, false)), (String ((Ascii
    (true, false, false, false, false, false, true, false)), (String ((Ascii
    (false, false, true, false, true, false, true, false)), (String ((Ascii
    (true, false, false, false, false, false, true, false)), (String ((Ascii
    (true, true, false, false, true, false, true, false)), (String ((Ascii
    (false, false, false, false, true, false, true, false)), (String ((Ascii
    (true, false, true, false, false, false, true, false)), (String ((Ascii
    (true, false, true, false, false, false, true, false)), (String ((Ascii
    (false, false, true, false, false, false, true, false)), (String ((Ascii
    (true, true, true, true, true, false, true, false)), (String ((Ascii
    (true, true, false, false, false, false, true, false)), (String ((Ascii
    (false, false, true, false, false, false, true, false)), (String ((Ascii
    (false, false, true, false, true, true, false, false)),
    EmptyString)))))))))))))))))))))))))), (Zpos XH)) :: (((String ((Ascii
    (false, true, false, true, false, false, true, false)), (String ((Ascii
    (true, false, false, false, true, true, false, false)), (String ((Ascii
    (true, false, false, true, true, true, false, false)), (String ((Ascii
    (true, true, false, false, true, true, false, false)), (String ((Ascii
    (true, false, false, true, true, true, false, false)),
    EmptyString)))))))))), (Zpos (XO XH))) :: (((String ((Ascii (false,
    false, true, true, false, false, true, false)), (String ((Ascii (true,
    false, true, false, false, false, true, false)), (String ((Ascii (false,
    false, false, true, true, false, true, false)), (String ((Ascii (true,
    false, true, false, true, false, true, false)), (String ((Ascii (true,
    true, false, false, true, false, true, false)), (String ((Ascii (true,
    true, true, true, true, false, true, false)), (String ((Ascii (true,
    true, false, false, false, false, true, false)), (String ((Ascii (false,
    false, true, false, true, false, true, false)), (String ((Ascii (false,
    true, false, false, true, true, false, false)), (String ((Ascii (false,
    false, false, false, true, true, false, false)), (String ((Ascii (false,
    false, false, false, true, true, false, false)), (String ((Ascii (false,
    false, false, true, false, false, true, false)),
    EmptyString)))))))))))))))))))))))), (Zpos (XO (XO (XI (XO
    XH)))))) :: (((String ((Ascii (true, true, false, true, false, false,
    true, false)), (String ((Ascii (true, false, false, true, false, false,
    true, false)), (String ((Ascii (true, false, false, false, false, false,
    true, false)), (String ((Ascii (true, true, true, true, true, false,
    true, false)), (String ((Ascii (true, true, false, false, true, false,
    true, false)), (String ((Ascii (true, true, true, true, false, false,
    true, false)), (String ((Ascii (false, true, false, false, true, false,
    true, false)), (String ((Ascii (true, false, true, false, false, false,
    true, false)), (String ((Ascii (false, true, true, true, false, false,
    true, false)), (String ((Ascii (false, false, true, false, true, false,
    true, false)), (String ((Ascii (true, true, true, true, false, false,
    true, false)), EmptyString)))))))))))))))))))))), (Zpos (XO (XO (XO (XI
    (XO XH))))))) :: (((String ((Ascii (true, true, false, true, false,
    false, true, false)), (String ((Ascii (true, false, false, true, false,
    false, true, false)), (String ((Ascii (true, false, false, false, false,
    false, true, false)), (String ((Ascii (true, true, true, true, true,
    false, true, false)), (String ((Ascii (true, true, false, false, true,
    false, true, false)), (String ((Ascii (false, false, false, false, true,
    false, true, false)), (String ((Ascii (true, true, true, true, false,
    false, true, false)), (String ((Ascii (false, true, false, false, true,
    false, true, false)), (String ((Ascii (false, false, true, false, true,
    false, true, false)), (String ((Ascii (true, false, false, false, false,
    false, true, false)), (String ((Ascii (true, true, true, false, false,
    false, true, false)), (String ((Ascii (true, false, true, false, false,
    false, true, false)), EmptyString)))))))))))))))))))))))), (Zpos (XI (XO
    (XO (XI (XO XH))))))) :: (((String ((Ascii (true, false, false, false,
    false, false, true, false)), (String ((Ascii (true, false, true, false,
    true, false, true, false)), (String ((Ascii (false, false, true, false,
    false, false, true, false)), (String ((Ascii (true, false, false, true,
    false, false, true, false)), (String ((Ascii (true, true, true, true,
    true, false, true, false)), (String ((Ascii (true, false, false, false,
    true, false, true, false)), (String ((Ascii (true, true, true, false,
    true, true, false, false)), EmptyString)))))))))))))), (Zpos (XO (XO (XI
    (XI (XI XH))))))) :: (((String ((Ascii (true, false, false, false, false,
    false, true, false)), (String ((Ascii (true, false, true, false, true,
    false, true, false)), (String ((Ascii (false, false, true, false, false,
    false, true, false)), (String ((Ascii (true, false, false, true, false,
    false, true, false)), (String ((Ascii (true, true, true, true, true,
    false, true, false)), (String ((Ascii (true, false, false, false, false,
    false, true, false)), (String ((Ascii (false, false, false, true, true,
    true, false, false)), (String ((Ascii (false, false, true, true, false,
    false, true, false)), EmptyString)))))))))))))))), (Zpos (XI (XO (XI (XI
    (XI XH))))))) :: (((String ((Ascii (false, false, true, false, true,
    false, true, false)), (String ((Ascii (true, false, true, false, false,
    false, true, false)), (String ((Ascii (true, true, false, false, true,
    false, true, false)), (String ((Ascii (false, false, true, true, false,
    false, true, false)), (String ((Ascii (true, false, false, false, false,
    false, true, false)), (String ((Ascii (true, true, true, true, true,
    false, true, false)), (String ((Ascii (true, false, true, true, false,
    false, true, false)), (String ((Ascii (true, true, true, true, false,
    false, true, false)), (String ((Ascii (false, false, true, false, false,
    false, true, false)), (String ((Ascii (true, false, true, false, false,
    false, true, false)), (String ((Ascii (false, false, true, true, false,
    false, true, false)), (String ((Ascii (true, true, true, true, true,
    false, true, false)), (String ((Ascii (false, false, false, true, true,
    false, true, false)), EmptyString)))))))))))))))))))))))))), (Zpos (XO
    (XO (XO (XO (XI (XO XH)))))))) :: (((String ((Ascii (false, false, true,
    false, true, false, true, false)), (String ((Ascii (true, false, true,
    false, false, false, true, false)), (String ((Ascii (true, true, false,
    false, true, false, true, false)), (String ((Ascii (false, false, true,
    true, false, false, true, false)), (String ((Ascii (true, false, false,
    false, false, false, true, false)), (String ((Ascii (true, true, true,
    true, true, false, true, false)), (String ((Ascii (true, false, true,
    true, false, false, true, false)), (String ((Ascii (true, true, true,
    true, false, false, true, false)), (String ((Ascii (false, false, true,
    false, false, false, true, false)), (String ((Ascii (true, false, true,
    false, false, false, true, false)), (String ((Ascii (false, false, true,
    true, false, false, true, false)), (String ((Ascii (true, true, true,
    true, true, false, true, false)), (String ((Ascii (true, true, false,
    false, true, true, false, false)), EmptyString)))))))))))))))))))))))))),
    (Zpos (XI (XO (XO (XO (XI (XO XH)))))))) :: (((String ((Ascii (false,
    false, false, true, false, false, true, false)), (String ((Ascii (true,
    false, false, true, true, false, true, false)), (String ((Ascii (true,
    false, true, false, true, false, true, false)), (String ((Ascii (false,
    true, true, true, false, false, true, false)), (String ((Ascii (false,
    false, true, false, false, false, true, false)), (String ((Ascii (true,
    false, false, false, false, false, true, false)), (String ((Ascii (true,
    false, false, true, false, false, true, false)), (String ((Ascii (true,
    true, true, true, true, false, true, false)), (String ((Ascii (true,
    false, true, false, false, false, true, false)), (String ((Ascii (false,
    false, true, true, false, false, true, false)), (String ((Ascii (true,
    false, false, false, false, false, true, false)), (String ((Ascii (false,
    true, true, true, false, false, true, false)), (String ((Ascii (false,
    false, true, false, true, false, true, false)), (String ((Ascii (false,
    true, false, false, true, false, true, false)), (String ((Ascii (true,
    false, false, false, false, false, true, false)),
    EmptyString)))))))))))))))))))))))))))))), (Zpos (XO (XO (XI (XO (XO (XI
    XH)))))))) :: (((String ((Ascii (false, false, false, false, true, false,
    true, false)), (String ((Ascii (true, false, true, false, false, false,
    true, false)), (String ((Ascii (true, false, true, false, true, false,
    true, false)), (String ((Ascii (true, true, true, false, false, false,
    true, false)), (String ((Ascii (true, false, true, false, false, false,
    true, false)), (String ((Ascii (true, true, true, true, false, false,
    true, false)), (String ((Ascii (false, false, true, false, true, false,
    true, false)), (String ((Ascii (true, true, true, true, true, false,
    true, false)), (String ((Ascii (false, true, false, false, true, true,
    false, false)), (String ((Ascii (false, false, false, false, true, true,
    false, false)), (String ((Ascii (false, true, true, false, true, true,
    false, false)), EmptyString)))))))))))))))))))))), (Zpos (XO (XO (XO (XI
    (XI (XI XH)))))))) :: (((String ((Ascii (true, false, true, true, false,
    false, true, false)), (String ((Ascii (true, false, false, false, false,
    false, true, false)), (String ((Ascii (false, true, true, true, false,
    false, true, false)), (String ((Ascii (true, true, true, true, true,
    false, true, false)), (String ((Ascii (false, false, true, false, true,
    false, true, false)), (String ((Ascii (true, true, true, false, false,
    false, true, false)), (String ((Ascii (false, false, false, true, true,
    false, true, false)), EmptyString)))))))))))))), (Zpos (XO (XO (XI (XI
    (XO (XO (XO XH))))))))) :: (((String ((Ascii (false, true, true, false,
    false, false, true, false)), (String ((Ascii (true, false, false, false,
    false, false, true, false)), (String ((Ascii (true, true, false, false,
    false, false, true, false)), (String ((Ascii (false, false, true, false,
    true, false, true, false)), (String ((Ascii (true, false, false, true,
    false, false, true, false)), (String ((Ascii (true, true, true, true,
    false, false, true, false)), (String ((Ascii (false, true, true, true,
    false, false, true, false)), EmptyString)))))))))))))), (Zpos (XO (XO (XO
    (XO (XO (XI (XO XH))))))))) :: (((String ((Ascii (false, true, true,
    false, false, false, true, false)), (String ((Ascii (true, false, false,
    false, false, false, true, false)), (String ((Ascii (true, true, false,
    false, false, false, true, false)), (String ((Ascii (false, false, true,
    false, true, false, true, false)), (String ((Ascii (true, false, false,
    true, false, false, true, false)), (String ((Ascii (true, true, true,
    true, false, false, true, false)), (String ((Ascii (false, true, true,
    true, false, false, true, false)), (String ((Ascii (true, true, true,
    true, true, false, true, false)), (String ((Ascii (false, true, true,
    false, true, false, true, false)), (String ((Ascii (false, true, false,
    false, true, true, false, false)), EmptyString)))))))))))))))))))), (Zpos
    (XI (XO (XO (XO (XO (XI (XO XH))))))))) :: (((String ((Ascii (false,
    false, true, true, false, false, true, false)), (String ((Ascii (true,
    false, false, true, false, false, true, false)), (String ((Ascii (false,
    true, true, true, false, false, true, false)), (String ((Ascii (true,
    true, false, false, false, false, true, false)), (String ((Ascii (true,
    true, true, true, false, false, true, false)), (String ((Ascii (false,
    false, true, true, false, false, true, false)), (String ((Ascii (false,
    true, true, true, false, false, true, false)), (String ((Ascii (true,
    true, true, true, true, false, true, false)), (String ((Ascii (true,
    false, true, true, false, false, true, false)), (String ((Ascii (true,
    true, false, true, false, false, true, false)), (String ((Ascii (false,
    true, false, true, true, false, true, false)),
    EmptyString)))))))))))))))))))))), (Zpos (XO (XO (XI (XO (XI (XI (XO
    XH))))))))) :: (((String ((Ascii (false, true, false, false, false,
    false, true, false)), (String ((Ascii (true, false, true, true, false,
    false, true, false)), (String ((Ascii (true, true, true, false, true,
    false, true, false)), (String ((Ascii (true, true, true, true, true,
    false, true, false)), (String ((Ascii (true, true, true, false, true,
    true, false, false)), EmptyString)))))))))), (Zpos (XO (XO (XO (XI (XO
    (XO (XI XH))))))))) :: (((String ((Ascii (false, true, false, false,
    false, false, true, false)), (String ((Ascii (true, false, true, true,
    false, false, true, false)), (String ((Ascii (true, true, true, false,
    true, false, true, false)), (String ((Ascii (true, true, true, true,
    true, false, true, false)), (String ((Ascii (true, false, true, true,
    false, false, true, false)), (String ((Ascii (true, true, true, true,
    false, false, true, false)), (String ((Ascii (false, false, true, false,
    true, false, true, false)), (String ((Ascii (true, true, true, true,
    false, false, true, false)), (String ((Ascii (false, true, false, false,
    true, false, true, false)), (String ((Ascii (false, true, false, false,
    true, false, true, false)), (String ((Ascii (true, false, false, false,
    false, false, true, false)), (String ((Ascii (false, false, true, false,
    false, false, true, false)), EmptyString)))))))))))))))))))))))), (Zpos
    (XI (XO (XO (XI (XO (XO (XI XH))))))))) :: (((String ((Ascii (false,
    true, true, false, true, false, true, false)), (String ((Ascii (true,
    true, true, false, true, false, true, false)), (String ((Ascii (true,
    true, true, true, true, false, true, false)), (String ((Ascii (false,
    false, true, false, true, true, false, false)), EmptyString)))))))),
    (Zpos (XO (XO (XI (XI (XI (XO (XI XH))))))))) :: (((String ((Ascii
    (false, true, false, false, true, false, true, false)), (String ((Ascii
    (true, false, false, true, false, false, true, false)), (String ((Ascii
    (false, true, true, false, true, false, true, false)), (String ((Ascii
    (true, false, false, true, false, false, true, false)), (String ((Ascii
    (true, false, false, false, false, false, true, false)), (String ((Ascii
    (false, true, true, true, false, false, true, false)),
    EmptyString)))))))))))), (Zpos (XO (XO (XO (XO (XI (XI (XI
    XH))))))))) :: (((String ((Ascii (false, true, true, false, false, false,
    true, false)), (String ((Ascii (false, false, true, true, false, false,
    true, false)), (String ((Ascii (true, false, true, false, false, false,
    true, false)), (String ((Ascii (false, false, false, true, true, false,
    true, false)), (String ((Ascii (false, true, false, false, true, false,
    true, false)), (String ((Ascii (true, false, false, false, false, false,
    true, false)), (String ((Ascii (true, false, false, true, true, false,
    true, false)), (String ((Ascii (true, true, true, true, true, false,
    true, false)), (String ((Ascii (false, false, true, false, false, false,
    true, false)), (String ((Ascii (true, false, true, false, false, false,
    true, false)), (String ((Ascii (false, true, true, false, true, false,
    true, false)), (String ((Ascii (true, false, false, true, false, false,
    true, false)), (String ((Ascii (true, true, false, false, false, false,
    true, false)), (String ((Ascii (true, false, true, false, false, false,
    true, false)), (String ((Ascii (true, true, true, true, true, false,
    true, false)), (String ((Ascii (true, false, false, false, false, false,
    true, false)), (String ((Ascii (true, false, true, false, true, false,
    true, false)), (String ((Ascii (false, false, true, false, false, false,
    true, false)), (String ((Ascii (true, false, false, true, false, false,
    true, false)), (String ((Ascii (true, true, true, true, true, false,
    true, false)), (String ((Ascii (true, false, true, false, false, false,
    true, false)), (String ((Ascii (false, false, true, false, true, false,
    true, false)), (String ((Ascii (false, true, false, false, true, false,
    true, false)), (String ((Ascii (true, true, true, true, false, false,
    true, false)), (String ((Ascii (false, true, true, true, false, false,
    true, false)),
    EmptyString)))))))))))))))))))))))))))))))))))))))))))))))))), (Zpos (XO
    (XO (XI (XO (XO (XO (XO (XO
    XH)))))))))) :: [])))))))))))))))))))))) :: (((String ((Ascii (false,
    true, true, false, false, true, true, false)), (String ((Ascii (true,
    false, true, false, true, true, true, false)), (String ((Ascii (true,
    true, false, false, true, true, true, false)), (String ((Ascii (true,
    false, false, true, false, true, true, false)), (String ((Ascii (true,
    true, true, true, false, true, true, false)), (String ((Ascii (false,
    true, true, true, false, true, true, false)), (String ((Ascii (true,
    true, true, true, true, false, true, false)), (String ((Ascii (true,
    false, true, false, false, true, true, false)), (String ((Ascii (false,
    true, true, true, false, true, true, false)), (String ((Ascii (true,
    true, true, false, false, true, true, false)), (String ((Ascii (true,
    false, false, true, false, true, true, false)), (String ((Ascii (false,
    true, true, true, false, true, true, false)), (String ((Ascii (true,
    false, true, false, false, true, true, false)), (String ((Ascii (true,
    true, true, true, true, false, true, false)), (String ((Ascii (true,
    true, false, false, false, true, true, false)), (String ((Ascii (false,
    false, true, true, false, true, true, false)), (String ((Ascii (true,
    false, false, true, false, true, true, false)), (String ((Ascii (true,
    false, true, false, false, true, true, false)), (String ((Ascii (false,
    true, true, true, false, true, true, false)), (String ((Ascii (false,
    false, true, false, true, true, true, false)), (String ((Ascii (false,
    true, true, true, false, true, false, false)), (String ((Ascii (true,
    false, true, true, false, true, true, false)), (String ((Ascii (true,
    false, true, false, false, true, true, false)), (String ((Ascii (true,
    true, false, false, true, true, true, false)), (String ((Ascii (true,
    true, false, false, true, true, true, false)), (String ((Ascii (true,
    false, false, false, false, true, true, false)), (String ((Ascii (true,
    true, true, false, false, true, true, false)), (String ((Ascii (true,
    false, true, false, false, true, true, false)), (String ((Ascii (true,
    true, false, false, true, true, true, false)), (String ((Ascii (false,
    true, true, true, false, true, false, false)), (String ((Ascii (true,
    true, false, false, false, true, true, false)), (String ((Ascii (true,
    true, true, true, false, true, true, false)), (String ((Ascii (false,
    true, true, true, false, true, true, false)), (String ((Ascii (false,
    true, true, false, false, true, true, false)), (String ((Ascii (true,
    false, false, true, false, true, true, false)), (String ((Ascii (true,
    true, true, false, false, true, true, false)), (String ((Ascii (true,
    false, true, false, true, true, true, false)), (String ((Ascii (false,
    true, false, false, true, true, true, false)), (String ((Ascii (true,
    false, false, false, false, true, true, false)), (String ((Ascii (false,
    false, true, false, true, true, true, false)), (String ((Ascii (true,
    false, false, true, false, true, true, false)), (String ((Ascii (true,
    true, true, true, false, true, true, false)), (String ((Ascii (false,
    true, true, true, false, true, true, false)), (String ((Ascii (false,
    true, false, true, true, true, false, false)), (String ((Ascii (true,
    true, true, false, true, false, true, false)), (String ((Ascii (false,
    false, false, true, false, true, true, false)), (String ((Ascii (true,
    false, true, false, false, true, true, false)), (String ((Ascii (true,
    false, true, false, false, true, true, false)), (String ((Ascii (false,
    false, true, true, false, true, true, false)), (String ((Ascii (true,
    true, false, false, true, false, true, false)), (String ((Ascii (true,
    false, true, false, false, true, true, false)), (String ((Ascii (false,
    true, true, true, false, true, true, false)), (String ((Ascii (true,
    true, false, false, true, true, true, false)), (String ((Ascii (true,
    true, true, true, false, true, true, false)), (String ((Ascii (false,
    true, false, false, true, true, true, false)), (String ((Ascii (false,
    false, true, false, true, false, true, false)), (String ((Ascii (true,
    false, false, true, true, true, true, false)), (String ((Ascii (false,
    false, false, false, true, true, true, false)), (String ((Ascii (true,
    false, true, false, false, true, true, false)),
    EmptyString)))))))))))))))))))))))))))))))))))))))))))))))))))))))))))))))))))))))))))))))))))))))))))))))))))))))))))))))))))))),
    (((String ((Ascii (false, true, true, true, false, false, true, false)),
    (String ((Ascii (true, true, true, true, false, false, true, false)),
    (String ((Ascii (false, true, true, true, false, false, true, false)),
    (String ((Ascii (true, false, true, false, false, false, true, false)),
    EmptyString)))))))), Z0) :: (((String ((Ascii (false, false, true, false,
    true, false, true, false)), (String ((Ascii (true, false, false, true,
    false, false, true, false)), (String ((Ascii (true, true, false, false,
    false, false, true, false)), (String ((Ascii (true, true, false, true,
    false, false, true, false)), (String ((Ascii (true, true, false, false,
    true, false, true, false)), EmptyString)))))))))), (Zpos (XO
    XH))) :: (((String ((Ascii (true, true, true, false, true, false, true,
    false)), (String ((Ascii (false, false, false, true, false, false, true,
    false)), (String ((Ascii (true, false, true, false, false, false, true,
    false)), (String ((Ascii (true, false, true, false, false, false, true,
    false)), (String ((Ascii (false, false, true, true, false, false, true,
    false)), (String ((Ascii (true, true, true, true, true, false, true,
    false)), (String ((Ascii (true, true, false, false, true, false, true,
    false)), (String ((Ascii (false, false, false, false, true, false, true,
    false)), (String ((Ascii (true, false, true, false, false, false, true,
    false)), (String ((Ascii (true, false, true, false, false, false, true,
    false)), (String ((Ascii (false, false, true, false, false, false, true,
    false)), EmptyString)))))))))))))))))))))), (Zpos (XI XH))) :: (((String
    ((Ascii (false, true, true, false, true, false, true, false)), (String
    ((Ascii (true, false, true, false, false, false, true, false)), (String
    ((Ascii (false, false, false, true, false, false, true, false)), (String
    ((Ascii (true, false, false, true, false, false, true, false)), (String
    ((Ascii (true, true, false, false, false, false, true, false)), (String
    ((Ascii (false, false, true, true, false, false, true, false)), (String
    ((Ascii (true, false, true, false, false, false, true, false)), (String
    ((Ascii (true, true, true, true, true, false, true, false)), (String
    ((Ascii (true, true, false, false, true, false, true, false)), (String
    ((Ascii (false, false, false, false, true, false, true, false)), (String
    ((Ascii (true, false, true, false, false, false, true, false)), (String
    ((Ascii (true, false, true, false, false, false, true, false)), (String
    ((Ascii (false, false, true, false, false, false, true, false)),
    EmptyString)))))))))))))))))))))))))), (Zpos (XO (XO XH)))) :: (((String
    ((Ascii (false, true, true, false, true, false, true, false)), (String
    ((Ascii (true, false, true, false, false, false, true, false)), (String
    ((Ascii (false, false, false, true, false, false, true, false)), (String
    ((Ascii (true, false, false, true, false, false, true, false)), (String
    ((Ascii (true, true, false, false, false, false, true, false)), (String
    ((Ascii (false, false, true, true, false, false, true, false)), (String
    ((Ascii (true, false, true, false, false, false, true, false)), (String
    ((Ascii (true, true, true, true, true, false, true, false)), (String
    ((Ascii (false, false, true, false, true, false, true, false)), (String
    ((Ascii (true, false, false, true, false, false, true, false)), (String
    ((Ascii (true, true, false, false, false, false, true, false)), (String
    ((Ascii (true, true, false, true, false, false, true, false)), (String
    ((Ascii (true, true, false, false, true, false, true, false)),
    EmptyString)))))))))))))))))))))))))), (Zpos (XI (XO
    XH)))) :: [])))))) :: (((String ((Ascii (false, true, true, false, false,
    true, true, false)), (String ((Ascii (true, false, true, false, true,
    true, true, false)), (String ((Ascii (true, true, false, false, true,
    true, true, false)), (String ((Ascii (true, false, false, true, false,
    true, true, false)), (String ((Ascii (true, true, true, true, false,
    true, true, false)), (String ((Ascii (false, true, true, true, false,
    true, true, false)), (String ((Ascii (true, true, true, true, true,
    false, true, false)), (String ((Ascii (true, false, true, false, false,
    true, true, false)), (String ((Ascii (false, true, true, true, false,
    true, true, false)), (String ((Ascii (true, true, true, false, false,
    true, true, false)), (String ((Ascii (true, false, false, true, false,
    true, true, false)), (String ((Ascii (false, true, true, true, false,
    true, true, false)), (String ((Ascii (true, false, true, false, false,
    true, true, false)), (String ((Ascii (true, true, true, true, true,
    false, true, false)), (String ((Ascii (true, true, false, false, false,
    true, true, false)), (String ((Ascii (false, false, true, true, false,
    true, true, false)), (String ((Ascii (true, false, false, true, false,
    true, true, false)), (String ((Ascii (true, false, true, false, false,
    true, true, false)), (String ((Ascii (false, true, true, true, false,
    true, true, false)), (String ((Ascii (false, false, true, false, true,
    true, true, false)), (String ((Ascii (false, true, true, true, false,
    true, false, false)), (String ((Ascii (true, false, true, true, false,
    true, true, false)), (String ((Ascii (true, false, true, false, false,
    true, true, false)), (String ((Ascii (true, true, false, false, true,
    true, true, false)), (String ((Ascii (true, true, false, false, true,
    true, true, false)), (String ((Ascii (true, false, false, false, false,
    true, true, false)), (String ((Ascii (true, true, true, false, false,
    true, true, false)), (String ((Ascii (true, false, true, false, false,
    true, true, false)), (String ((Ascii (true, true, false, false, true,
    true, true, false)), (String ((Ascii (false, true, true, true, false,
    true, false, false)), (String ((Ascii (false, false, true, false, false,
    true, true, false)), (String ((Ascii (true, false, true, false, false,
    true, true, false)), (String ((Ascii (false, true, true, false, false,
    true, true, false)), (String ((Ascii (true, true, false, false, true,
    true, true, false)), (String ((Ascii (false, true, false, true, true,
    true, false, false)), (String ((Ascii (true, false, true, true, false,
    false, true, false)), (String ((Ascii (true, false, true, false, false,
    true, true, false)), (String ((Ascii (true, true, false, false, true,
    true, true, false)), (String ((Ascii (true, true, false, false, true,
    true, true, false)), (String ((Ascii (true, false, false, false, false,
    true, true, false)), (String ((Ascii (true, true, true, false, false,
    true, true, false)), (String ((Ascii (true, false, true, false, false,
    true, true, false)), (String ((Ascii (false, false, true, false, true,
    false, true, false)), (String ((Ascii (true, false, false, true, true,
    true, true, false)), (String ((Ascii (false, false, false, false, true,
    true, true, false)), (String ((Ascii (true, false, true, false, false,
    true, true, false)),
    EmptyString)))))))))))))))))))))))))))))))))))))))))))))))))))))))))))))))))))))))))))))))))))))))))))),
    (((String ((Ascii (true, false, false, true, false, false, true, false)),
    (String ((Ascii (false, true, true, true, false, false, true, false)),
    (String ((Ascii (false, true, true, false, true, false, true, false)),
    (String ((Ascii (true, false, false, false, false, false, true, false)),
    (String ((Ascii (false, false, true, true, false, false, true, false)),
    (String ((Ascii (true, false, false, true, false, false, true, false)),
    (String ((Ascii (false, false, true, false, false, false, true, false)),
    EmptyString)))))))))))))), Z0) :: (((String ((Ascii (false, false, false,
    false, true, false, true, false)), (String ((Ascii (true, true, true,
    true, false, false, true, false)), (String ((Ascii (true, true, false,
    false, true, false, true, false)), (String ((Ascii (true, false, true,
    false, false, false, true, false)), EmptyString)))))))), (Zpos (XO (XO
    (XO (XO (XI (XO (XO (XO (XI (XI (XI (XO (XO
    XH))))))))))))))) :: (((String ((Ascii (true, true, true, false, false,
    false, true, false)), (String ((Ascii (false, true, true, true, false,
    false, true, false)), (String ((Ascii (true, true, false, false, true,
    false, true, false)), (String ((Ascii (true, true, false, false, true,
    false, true, false)), (String ((Ascii (true, true, true, true, true,
    false, true, false)), (String ((Ascii (true, false, false, true, false,
    false, true, false)), (String ((Ascii (false, true, true, true, false,
    false, true, false)), (String ((Ascii (false, true, true, false, false,
    false, true, false)), (String ((Ascii (true, true, true, true, false,
    false, true, false)), EmptyString)))))))))))))))))), (Zpos (XI (XO (XO
    (XO (XI (XO (XO (XO (XI (XI (XI (XO (XO XH))))))))))))))) :: (((String
    ((Ascii (true, true, true, false, false, false, true, false)), (String
    ((Ascii (false, true, true, true, false, false, true, false)), (String
    ((Ascii (true, true, false, false, true, false, true, false)), (String
    ((Ascii (true, true, false, false, true, false, true, false)), (String
    ((Ascii (true, true, true, true, true, false, true, false)), (String
    ((Ascii (true, true, false, false, true, false, true, false)), (String
    ((Ascii (true, false, false, false, false, false, true, false)), (String
    ((Ascii (false, false, true, false, true, false, true, false)), (String
    ((Ascii (true, false, true, false, false, false, true, false)), (String
    ((Ascii (false, false, true, true, false, false, true, false)), (String
    ((Ascii (false, false, true, true, false, false, true, false)), (String
    ((Ascii (true, false, false, true, false, false, true, false)), (String
    ((Ascii (false, false, true, false, true, false, true, false)), (String
    ((Ascii (true, false, true, false, false, false, true, false)),
    EmptyString)))))))))))))))))))))))))))), (Zpos (XO (XI (XO (XO (XI (XO
    (XO (XO (XI (XI (XI (XO (XO XH))))))))))))))) :: (((String ((Ascii
    (false, false, false, false, true, false, true, false)), (String ((Ascii
    (true, true, true, true, false, false, true, false)), (String ((Ascii
    (true, true, false, false, true, false, true, false)), (String ((Ascii
    (true, false, true, false, false, false, true, false)), (String ((Ascii
    (true, true, true, true, true, false, true, false)), (String ((Ascii
    (true, false, false, false, false, false, true, false)), (String ((Ascii
    (true, false, true, false, true, false, true, false)), (String ((Ascii
    (false, false, false, true, true, false, true, false)),
    EmptyString)))))))))))))))), (Zpos (XI (XI (XO (XO (XI (XO (XO (XO (XI
    (XI (XI (XO (XO XH))))))))))))))) :: (((String ((Ascii (true, true,
    false, false, false, false, true, false)), (String ((Ascii (true, false,
    false, false, false, false, true, false)), (String ((Ascii (false, false,
    true, true, false, false, true, false)), (String ((Ascii (true, false,
    false, true, false, false, true, false)), (String ((Ascii (false, true,
    false, false, false, false, true, false)), (String ((Ascii (false, true,
    false, false, true, false, true, false)), (String ((Ascii (true, false,
    false, false, false, false, true, false)), (String ((Ascii (false, false,
    true, false, true, false, true, false)), (String ((Ascii (true, false,
    false, true, false, false, true, false)), (String ((Ascii (true, true,
    true, true, false, false, true, false)), (String ((Ascii (false, true,
    true, true, false, false, true, false)), (String ((Ascii (true, true,
    true, true, true, false, true, false)), (String ((Ascii (true, true,
    false, false, true, false, true, false)), (String ((Ascii (false, false,
    true, false, true, false, true, false)), (String ((Ascii (true, false,
    false, false, false, false, true, false)), (String ((Ascii (false, false,
    true, false, true, false, true, false)), (String ((Ascii (true, false,
    true, false, true, false, true, false)), (String ((Ascii (true, true,
    false, false, true, false, true, false)),
    EmptyString)))))))))))))))))))))))))))))))))))), (Zpos (XO (XO (XI (XO
    (XI (XO (XO (XO (XI (XI (XI (XO (XO XH))))))))))))))) :: (((String
    ((Ascii (false, true, false, false, true, false, true, false)), (String
    ((Ascii (true, false, true, false, false, false, true, false)), (String
    ((Ascii (false, false, true, true, false, false, true, false)), (String
    ((Ascii (true, false, false, false, false, false, true, false)), (String
    ((Ascii (false, false, true, false, true, false, true, false)), (String
    ((Ascii (true, false, false, true, false, false, true, false)), (String
    ((Ascii (false, true, true, false, true, false, true, false)), (String
    ((Ascii (true, false, true, false, false, false, true, false)), (String
    ((Ascii (true, true, true, true, true, false, true, false)), (String
    ((Ascii (true, false, true, false, false, false, true, false)), (String
    ((Ascii (false, true, true, true, false, false, true, false)), (String
    ((Ascii (true, false, true, false, true, false, true, false)), (String
    ((Ascii (true, true, true, true, true, false, true, false)), (String
    ((Ascii (false, false, false, false, true, false, true, false)), (String
    ((Ascii (true, true, true, true, false, false, true, false)), (String
    ((Ascii (true, true, false, false, true, false, true, false)), (String
    ((Ascii (true, false, false, true, false, false, true, false)), (String
    ((Ascii (false, false, true, false, true, false, true, false)), (String
    ((Ascii (true, false, false, true, false, false, true, false)), (String
    ((Ascii (true, true, true, true, false, false, true, false)), (String
    ((Ascii (false, true, true, true, false, false, true, false)),
    EmptyString)))))))))))))))))))))))))))))))))))))))))), (Zpos (XI (XO (XI
    (XO (XI (XO (XO (XO (XI (XI (XI (XO (XO XH))))))))))))))) :: (((String
    ((Ascii (true, true, false, false, true, false, true, false)), (String
    ((Ascii (true, false, false, true, true, false, true, false)), (String
    ((Ascii (true, true, false, false, true, false, true, false)), (String
    ((Ascii (false, false, true, false, true, false, true, false)), (String
    ((Ascii (true, false, true, false, false, false, true, false)), (String
    ((Ascii (true, false, true, true, false, false, true, false)), (String
    ((Ascii (true, true, true, true, true, false, true, false)), (String
    ((Ascii (true, true, false, false, true, false, true, false)), (String
    ((Ascii (false, false, true, false, true, false, true, false)), (String
    ((Ascii (true, false, false, false, false, false, true, false)), (String
    ((Ascii (false, false, true, false, true, false, true, false)), (String
    ((Ascii (true, false, true, false, true, false, true, false)), (String
    ((Ascii (true, true, false, false, true, false, true, false)),
    EmptyString)))))))))))))))))))))))))), (Zpos (XO (XO (XI (XO (XO (XO (XO
    (XO (XI (XO (XO (XI (XO XH))))))))))))))) :: (((String ((Ascii (true,
    false, false, true, false, false, true, false)), (String ((Ascii (true,
    false, true, true, false, false, true, false)), (String ((Ascii (true,
    false, true, false, true, false, true, false)), (String ((Ascii (true,
    true, true, true, true, false, true, false)), (String ((Ascii (true,
    true, true, true, false, false, true, false)), (String ((Ascii (true,
    false, true, false, true, false, true, false)), (String ((Ascii (false,
    false, true, false, true, false, true, false)), (String ((Ascii (false,
    false, false, false, true, false, true, false)), (String ((Ascii (true,
    false, true, false, true, false, true, false)), (String ((Ascii (false,
    false, true, false, true, false, true, false)),
    EmptyString)))))))))))))))))))), (Zpos (XO (XO (XO (XI (XI (XI (XI (XI
    (XO (XI (XO (XI (XO XH))))))))))))))) :: (((String ((Ascii (false, false,
    true, false, false, false, true, false)), (String ((Ascii (true, false,
    true, false, false, false, true, false)), (String ((Ascii (false, false,
    false, false, true, false, true, false)), (String ((Ascii (false, true,
    false, false, true, false, true, false)), (String ((Ascii (true, false,
    true, false, false, false, true, false)), (String ((Ascii (true, true,
    false, false, false, false, true, false)), (String ((Ascii (true, false,
    false, false, false, false, true, false)), (String ((Ascii (false, false,
    true, false, true, false, true, false)), (String ((Ascii (true, false,
    true, false, false, false, true, false)), (String ((Ascii (false, false,
    true, false, false, false, true, false)), (String ((Ascii (true, true,
    true, true, true, false, true, false)), (String ((Ascii (false, true,
    false, false, true, false, true, false)), (String ((Ascii (true, false,
    false, false, false, false, true, false)), (String ((Ascii (true, true,
    true, false, true, false, true, false)), (String ((Ascii (true, true,
    true, true, true, false, true, false)), (String ((Ascii (false, false,
    false, true, false, false, true, false)), (String ((Ascii (true, false,
    true, false, false, false, true, false)), (String ((Ascii (true, false,
    false, false, false, false, true, false)), (String ((Ascii (false, false,
    true, false, false, false, true, false)), (String ((Ascii (true, false,
    false, true, false, false, true, false)), (String ((Ascii (false, true,
    true, true, false, false, true, false)), (String ((Ascii (true, true,
    true, false, false, false, true, false)), (String ((Ascii (true, true,
    true, true, true, false, true, false)), (String ((Ascii (true, true,
    true, true, false, false, true, false)), (String ((Ascii (true, false,
    true, false, true, false, true, false)), (String ((Ascii (false, false,
    true, false, true, false, true, false)), (String ((Ascii (false, false,
    false, false, true, false, true, false)), (String ((Ascii (true, false,
    true, false, true, false, true, false)), (String ((Ascii (false, false,
    true, false, true, false, true, false)),
    EmptyString)))))))))))))))))))))))))))))))))))))))))))))))))))))))))),
    (Zpos (XI (XO (XO (XI (XI (XI (XI (XI (XO (XI (XO (XI (XO
    XH))))))))))))))) :: (((String ((Ascii (false, true, false, false, true,
    false, true, false)), (String ((Ascii (true, false, false, false, false,
    false, true, false)), (String ((Ascii (true, true, true, false, true,
    false, true, false)), (String ((Ascii (true, true, true, true, true,
    false, true, false)), (String ((Ascii (true, false, false, true, false,
    false, true, false)), (String ((Ascii (true, false, true, true, false,
    false, true, false)), (String ((Ascii (true, false, true, false, true,
    false, true, false)), (String ((Ascii (true, true, true, true, true,
    false, true, false)), (String ((Ascii (true, true, true, true, false,
    false, true, false)), (String ((Ascii (true, false, true, false, true,
    false, true, false)), (String ((Ascii (false, false, true, false, true,
    false, true, false)), (String ((Ascii (false, false, false, false, true,
    false, true, false)), (String ((Ascii (true, false, true, false, true,
    false, true, false)), (String ((Ascii (false, false, true, false, true,
    false, true, false)), EmptyString)))))))))))))))))))))))))))), (Zpos (XO
    (XI (XO (XI (XI (XI (XI (XI (XO (XI (XO (XI (XO
    XH))))))))))))))) :: (((String ((Ascii (false, false, true, false, false,
    false, true, false)), (String ((Ascii (true, false, true, false, false,
    false, true, false)), (String ((Ascii (false, false, false, false, true,
    false, true, false)), (String ((Ascii (false, true, false, false, true,
    false, true, false)), (String ((Ascii (true, false, true, false, false,
    false, true, false)), (String ((Ascii (true, true, false, false, false,
    false, true, false)), (String ((Ascii (true, false, false, false, false,
    false, true, false)), (String ((Ascii (false, false, true, false, true,
    false, true, false)), (String ((Ascii (true, false, true, false, false,
    false, true, false)), (String ((Ascii (false, false, true, false, false,
    false, true, false)), (String ((Ascii (true, true, true, true, true,
    false, true, false)), (String ((Ascii (false, false, false, true, false,
    false, true, false)), (String ((Ascii (true, false, true, false, false,
    false, true, false)), (String ((Ascii (true, false, false, false, false,
    false, true, false)), (String ((Ascii (false, false, true, false, false,
    false, true, false)), (String ((Ascii (true, false, false, true, false,
    false, true, false)), (String ((Ascii (false, true, true, true, false,
    false, true, false)), (String ((Ascii (true, true, true, false, false,
    false, true, false)), (String ((Ascii (true, true, true, true, true,
    false, true, false)), (String ((Ascii (true, true, true, true, false,
    false, true, false)), (String ((Ascii (true, false, true, false, true,
    false, true, false)), (String ((Ascii (false, false, true, false, true,
    false, true, false)), (String ((Ascii (false, false, false, false, true,
    false, true, false)), (String ((Ascii (true, false, true, false, true,
    false, true, false)), (String ((Ascii (false, false, true, false, true,
    false, true, false)),
    EmptyString)))))))))))))))))))))))))))))))))))))))))))))))))), (Zpos (XI
    (XI (XO (XI (XI (XI (XI (XI (XO (XI (XO (XI (XO
    XH))))))))))))))) :: (((String ((Ascii (true, false, false, true, false,
    false, true, false)), (String ((Ascii (true, false, true, true, false,
    false, true, false)), (String ((Ascii (true, false, true, false, true,
    false, true, false)), (String ((Ascii (true, true, true, true, true,
    false, true, false)), (String ((Ascii (true, false, false, true, false,
    false, true, false)), (String ((Ascii (false, true, true, true, false,
    false, true, false)), (String ((Ascii (false, false, false, false, true,
    false, true, false)), (String ((Ascii (true, false, true, false, true,
    false, true, false)), (String ((Ascii (false, false, true, false, true,
    false, true, false)), EmptyString)))))))))))))))))), (Zpos (XO (XO (XI
    (XI (XI (XI (XI (XI (XO (XI (XO (XI (XO XH))))))))))))))) :: (((String
    ((Ascii (true, true, true, false, false, false, true, false)), (String
    ((Ascii (false, true, true, true, false, false, true, false)), (String
    ((Ascii (true, true, false, false, true, false, true, false)), (String
    ((Ascii (true, true, false, false, true, false, true, false)), (String
    ((Ascii (true, true, true, true, true, false, true, false)), (String
    ((Ascii (true, false, false, false, false, false, true, false)), (String
    ((Ascii (false, false, true, false, true, false, true, false)), (String
    ((Ascii (false, false, true, false, true, false, true, false)), (String
    ((Ascii (true, false, false, true, false, false, true, false)), (String
    ((Ascii (false, false, true, false, true, false, true, false)), (String
    ((Ascii (true, false, true, false, true, false, true, false)), (String
    ((Ascii (false, false, true, false, false, false, true, false)), (String
    ((Ascii (true, false, true, false, false, false, true, false)), (String
    ((Ascii (true, true, true, true, true, false, true, false)), (String
    ((Ascii (true, true, true, true, false, false, true, false)), (String
    ((Ascii (true, false, true, false, true, false, true, false)), (String
    ((Ascii (false, false, true, false, true, false, true, false)), (String
    ((Ascii (false, false, false, false, true, false, true, false)), (String
    ((Ascii (true, false, true, false, true, false, true, false)), (String
    ((Ascii (false, false, true, false, true, false, true, false)),
    EmptyString)))))))))))))))))))))))))))))))))))))))), (Zpos (XI (XO (XI
    (XI (XI (XI (XI (XI (XO (XI (XO (XI (XO XH))))))))))))))) :: (((String
    ((Ascii (false, true, false, false, true, false, true, false)), (String
    ((Ascii (true, false, false, false, false, false, true, false)), (String
    ((Ascii (true, true, true, false, true, false, true, false)), (String
    ((Ascii (true, true, true, true, true, false, true, false)), (String
    ((Ascii (true, true, true, false, false, false, true, false)), (String
    ((Ascii (false, true, true, true, false, false, true, false)), (String
    ((Ascii (true, true, false, false, true, false, true, false)), (String
    ((Ascii (true, true, false, false, true, false, true, false)), (String
    ((Ascii (true, true, true, true, true, false, true, false)), (String
    ((Ascii (true, false, false, false, false, false, true, false)), (String
    ((Ascii (false, false, true, false, true, false, true, false)), (String
    ((Ascii (false, false, true, false, true, false, true, false)), (String
    ((Ascii (true, false, false, true, false, false, true, false)), (String
    ((Ascii (false, false, true, false, true, false, true, false)), (String
    ((Ascii (true, false, true, false, true, false, true, false)), (String
    ((Ascii (false, false, true, false, false, false, true, false)), (String
    ((Ascii (true, false, true, false, false, false, true, false)), (String
    ((Ascii (true, true, true, true, true, false, true, false)), (String
    ((Ascii (true, true, true, true, false, false, true, false)), (String
    ((Ascii (true, false, true, false, true, false, true, false)), (String
    ((Ascii (false, false, true, false, true, false, true, false)), (String
    ((Ascii (false, false, false, false, true, false, true, false)), (String
    ((Ascii (true, false, true, false, true, false, true, false)), (String
    ((Ascii (false, false, true, false, true, false, true, false)),
    EmptyString)))))))))))))))))))))))))))))))))))))))))))))))), (Zpos (XO
    (XI (XI (XI (XI (XI (XI (XI (XO (XI (XO (XI (XO
    XH))))))))))))))) :: (((String ((Ascii (false, false, true, false, false,
    false, true, false)), (String ((Ascii (true, false, true, false, false,
    false, true, false)), (String ((Ascii (false, false, false, false, true,
    false, true, false)), (String ((Ascii (false, true, false, false, true,
    false, true, false)), (String ((Ascii (true, false, true, false, false,
    false, true, false)), (String ((Ascii (true, true, false, false, false,
    false, true, false)), (String ((Ascii (true, false, false, false, false,
    false, true, false)), (String ((Ascii (false, false, true, false, true,
    false, true, false)), (String ((Ascii (true, false, true, false, false,
    false, true, false)), (String ((Ascii (false, false, true, false, false,
    false, true, false)), (String ((Ascii (true, true, true, true, true,
    false, true, false)), (String ((Ascii (true, true, true, false, true,
    false, true, false)), (String ((Ascii (false, false, false, true, false,
    false, true, false)), (String ((Ascii (true, false, true, false, false,
    false, true, false)), (String ((Ascii (true, false, true, false, false,
    false, true, false)), (String ((Ascii (false, false, true, true, false,
    false, true, false)), (String ((Ascii (true, true, true, true, true,
    false, true, false)), (String ((Ascii (true, true, false, false, true,
    false, true, false)), (String ((Ascii (false, false, false, false, true,
    false, true, false)), (String ((Ascii (true, false, true, false, false,
    false, true, false)), (String ((Ascii (true, false, true, false, false,
    false, true, false)), (String ((Ascii (false, false, true, false, false,
    false, true, false)), (String ((Ascii (true, true, true, true, true,
    false, true, false)), (String ((Ascii (true, false, true, true, false,
    false, true, false)), (String ((Ascii (true, false, true, false, false,
    false, true, false)), (String ((Ascii (true, false, false, false, false,
    false, true, false)), (String ((Ascii (true, true, false, false, true,
    false, true, false)), (String ((Ascii (true, false, true, false, true,
    false, true, false)), (String ((Ascii (false, true, false, false, true,
    false, true, false)), (String ((Ascii (true, false, true, false, false,
    false, true, false)), (String ((Ascii (true, false, true, true, false,
    false, true, false)), (String ((Ascii (true, false, true, false, false,
    false, true, false)), (String ((Ascii (false, true, true, true, false,
    false, true, false)), (String ((Ascii (false, false, true, false, true,
    false, true, false)),
    EmptyString)))))))))))))))))))))))))))))))))))))))))))))))))))))))))))))))))))),
    (Zpos (XI (XO (XI (XI (XI (XO (XI (XO (XI (XI (XO (XI (XO
    XH))))))))))))))) :: (((String ((Ascii (false, false, true, false, false,
    false, true, false)), (String ((Ascii (true, false, true, false, false,
    false, true, false)), (String ((Ascii (false, false, false, false, true,
    false, true, false)), (String ((Ascii (false, true, false, false, true,
    false, true, false)), (String ((Ascii (true, false, true, false, false,
    false, true, false)), (String ((Ascii (true, true, false, false, false,
    false, true, false)), (String ((Ascii (true, false, false, false, false,
    false, true, false)), (String ((Ascii (false, false, true, false, true,
    false, true, false)), (String ((Ascii (true, false, true, false, false,
    false, true, false)), (String ((Ascii (false, false, true, false, false,
    false, true, false)), (String ((Ascii (true, true, true, true, true,
    false, true, false)), (String ((Ascii (false, true, true, false, true,
    false, true, false)), (String ((Ascii (true, false, true, false, false,
    false, true, false)), (String ((Ascii (false, false, false, true, false,
    false, true, false)), (String ((Ascii (true, false, false, true, false,
    false, true, false)), (String ((Ascii (true, true, false, false, false,
    false, true, false)), (String ((Ascii (false, false, true, true, false,
    false, true, false)), (String ((Ascii (true, false, true, false, false,
    false, true, false)), (String ((Ascii (true, true, true, true, true,
    false, true, false)), (String ((Ascii (true, true, false, false, true,
    false, true, false)), (String ((Ascii (false, false, false, false, true,
    false, true, false)), (String ((Ascii (true, false, true, false, false,
    false, true, false)), (String ((Ascii (true, false, true, false, false,
    false, true, false)), (String ((Ascii (false, false, true, false, false,
    false, true, false)), (String ((Ascii (true, true, true, true, true,
    false, true, false)), (String ((Ascii (true, false, true, true, false,
    false, true, false)), (String ((Ascii (true, false, true, false, false,
    false, true, false)), (String ((Ascii (true, false, false, false, false,
    false, true, false)), (String ((Ascii (true, true, false, false, true,
    false, true, false)), (String ((Ascii (true, false, true, false, true,
    false, true, false)), (String ((Ascii (false, true, false, false, true,
    false, true, false)), (String ((Ascii (true, false, true, false, false,
    false, true, false)), (String ((Ascii (true, false, true, true, false,
    false, true, false)), (String ((Ascii (true, false, true, false, false,
    false, true, false)), (String ((Ascii (false, true, true, true, false,
    false, true, false)), (String ((Ascii (false, false, true, false, true,
    false, true, false)),
    EmptyString)))))))))))))))))))))))))))))))))))))))))))))))))))))))))))))))))))))))),
    (Zpos (XO (XI (XI (XI (XI (XO (XI (XO (XI (XI (XO (XI (XO
    XH))))))))))))))) :: (((String ((Ascii (true, true, true, false, true,
    false, true, false)), (String ((Ascii (false, false, false, true, false,
    false, true, false)), (String ((Ascii (true, false, true, false, false,
    false, true, false)), (String ((Ascii (true, false, true, false, false,
    false, true, false)), (String ((Ascii (false, false, true, true, false,
    false, true, false)), (String ((Ascii (true, true, true, true, true,
    false, true, false)), (String ((Ascii (false, false, true, false, true,
    false, true, false)), (String ((Ascii (true, false, false, true, false,
    false, true, false)), (String ((Ascii (true, true, false, false, false,
    false, true, false)), (String ((Ascii (true, true, false, true, false,
    false, true, false)), (String ((Ascii (true, true, true, true, true,
    false, true, false)), (String ((Ascii (true, false, false, true, false,
    false, true, false)), (String ((Ascii (false, true, true, true, false,
    false, true, false)), (String ((Ascii (false, false, false, false, true,
    false, true, false)), (String ((Ascii (true, false, true, false, true,
    false, true, false)), (String ((Ascii (false, false, true, false, true,
    false, true, false)), EmptyString)))))))))))))))))))))))))))))))), (Zpos
    (XI (XI (XI (XI (XI (XO (XI (XO (XI (XI (XO (XI (XO
    XH))))))))))))))) :: (((String ((Ascii (false, true, true, false, true,
    false, true, false)), (String ((Ascii (true, false, true, false, false,
    false, true, false)), (String ((Ascii (false, false, false, true, false,
    false, true, false)), (String ((Ascii (true, false, false, true, false,
    false, true, false)), (String ((Ascii (true, true, false, false, false,
    false, true, false)), (String ((Ascii (false, false, true, true, false,
    false, true, false)), (String ((Ascii (true, false, true, false, false,
    false, true, false)), (String ((Ascii (true, true, true, true, true,
    false, true, false)), (String ((Ascii (false, false, true, false, true,
    false, true, false)), (String ((Ascii (true, false, false, true, false,
    false, true, false)), (String ((Ascii (true, true, false, false, false,
    false, true, false)), (String ((Ascii (true, true, false, true, false,
    false, true, false)), (String ((Ascii (true, true, true, true, true,
    false, true, false)), (String ((Ascii (true, false, false, true, false,
    false, true, false)), (String ((Ascii (false, true, true, true, false,
    false, true, false)), (String ((Ascii (false, false, false, false, true,
    false, true, false)), (String ((Ascii (true, false, true, false, true,
    false, true, false)), (String ((Ascii (false, false, true, false, true,
    false, true, false)), EmptyString)))))))))))))))))))))))))))))))))))),
    (Zpos (XO (XO (XO (XO (XO (XI (XI (XO (XI (XI (XO (XI (XO
    XH))))))))))))))) :: (((String ((Ascii (true, true, true, false, true,
    false, true, false)), (String ((Ascii (false, false, false, true, false,
    false, true, false)), (String ((Ascii (true, false, true, false, false,
    false, true, false)), (String ((Ascii (true, false, true, false, false,
    false, true, false)), (String ((Ascii (false, false, true, true, false,
    false, true, false)), (String ((Ascii (true, true, true, true, true,
    false, true, false)), (String ((Ascii (true, true, false, false, true,
    false, true, false)), (String ((Ascii (false, false, false, false, true,
    false, true, false)), (String ((Ascii (true, false, true, false, false,
    false, true, false)), (String ((Ascii (true, false, true, false, false,
    false, true, false)), (String ((Ascii (false, false, true, false, false,
    false, true, false)), (String ((Ascii (true, true, true, true, true,
    false, true, false)), (String ((Ascii (true, false, false, true, false,
    false, true, false)), (String ((Ascii (false, true, true, true, false,
    false, true, false)), (String ((Ascii (false, false, false, false, true,
    false, true, false)), (String ((Ascii (true, false, true, false, true,
    false, true, false)), (String ((Ascii (false, false, true, false, true,
    false, true, false)), EmptyString)))))))))))))))))))))))))))))))))),
    (Zpos (XI (XO (XO (XO (XO (XI (XI (XO (XI (XI (XO (XI (XO
    XH))))))))))))))) :: (((String ((Ascii (false, true, true, false, true,
    false, true, false)), (String ((Ascii (true, false, true, false, false,
    false, true, false)), (String ((Ascii (false, false, false, true, false,
    false, true, false)), (String ((Ascii (true, false, false, true, false,
    false, true, false)), (String ((Ascii (true, true, false, false, false,
    false, true, false)), (String ((Ascii (false, false, true, true, false,
    false, true, false)), (String ((Ascii (true, false, true, false, false,
    false, true, false)), (String ((Ascii (true, true, true, true, true,
    false, true, false)), (String ((Ascii (true, true, false, false, true,
    false, true, false)), (String ((Ascii (false, false, false, false, true,
    false, true, false)), (String ((Ascii (true, false, true, false, false,
    false, true, false)), (String ((Ascii (true, false, true, false, false,
    false, true, false)), (String ((Ascii (false, false, true, false, false,
    false, true, false)), (String ((Ascii (true, true, true, true, true,
    false, true, false)), (String ((Ascii (true, false, false, true, false,
    false, true, false)), (String ((Ascii (false, true, true, true, false,
    false, true, false)), (String ((Ascii (false, false, false, false, true,
    false, true, false)), (String ((Ascii (true, false, true, false, true,
    false, true, false)), (String ((Ascii (false, false, true, false, true,
    false, true, false)), EmptyString)))))))))))))))))))))))))))))))))))))),
    (Zpos (XO (XI (XO (XO (XO (XI (XI (XO (XI (XI (XO (XI (XO
    XH))))))))))))))) :: (((String ((Ascii (false, true, false, false, true,
    false, true, false)), (String ((Ascii (true, false, false, false, false,
    false, true, false)), (String ((Ascii (true, true, true, false, true,
    false, true, false)), (String ((Ascii (true, true, true, true, true,
    false, true, false)), (String ((Ascii (true, true, true, false, true,
    false, true, false)), (String ((Ascii (false, false, false, true, false,
    false, true, false)), (String ((Ascii (true, false, true, false, false,
    false, true, false)), (String ((Ascii (true, false, true, false, false,
    false, true, false)), (String ((Ascii (false, false, true, true, false,
    false, true, false)), (String ((Ascii (true, true, true, true, true,
    false, true, false)), (String ((Ascii (false, false, true, false, true,
    false, true, false)), (String ((Ascii (true, false, false, true, false,
    false, true, false)), (String ((Ascii (true, true, false, false, false,
    false, true, false)), (String ((Ascii (true, true, false, true, false,
    false, true, false)), (String ((Ascii (true, true, true, true, true,
    false, true, false)), (String ((Ascii (true, true, true, true, false,
    false, true, false)), (String ((Ascii (true, false, true, false, true,
    false, true, false)), (String ((Ascii (false, false, true, false, true,
    false, true, false)), (String ((Ascii (false, false, false, false, true,
    false, true, false)), (String ((Ascii (true, false, true, false, true,
    false, true, false)), (String ((Ascii (false, false, true, false, true,
    false, true, false)),
    EmptyString)))))))))))))))))))))))))))))))))))))))))), (Zpos (XI (XI (XO
    (XO (XI (XI (XI (XO (XI (XI (XO (XI (XO XH))))))))))))))) :: (((String
    ((Ascii (false, true, false, false, true, false, true, false)), (String
    ((Ascii (true, false, false, false, false, false, true, false)), (String
    ((Ascii (true, true, true, false, true, false, true, false)), (String
    ((Ascii (true, true, true, true, true, false, true, false)), (String
    ((Ascii (false, true, true, false, true, false, true, false)), (String
    ((Ascii (true, false, true, false, false, false, true, false)), (String
    ((Ascii (false, false, false, true, false, false, true, false)), (String
    ((Ascii (true, false, false, true, false, false, true, false)), (String
    ((Ascii (true, true, false, false, false, false, true, false)), (String
    ((Ascii (false, false, true, true, false, false, true, false)), (String
    ((Ascii (true, false, true, false, false, false, true, false)), (String
    ((Ascii (true, true, true, true, true, false, true, false)), (String
    ((Ascii (false, false, true, false, true, false, true, false)), (String
    ((Ascii (true, false, false, true, false, false, true, false)), (String
    ((Ascii (true, true, false, false, false, false, true, false)), (String
    ((Ascii (true, true, false, true, false, false, true, false)), (String
    ((Ascii (true, true, true, true, true, false, true, false)), (String
    ((Ascii (true, true, true, true, false, false, true, false)), (String
    ((Ascii (true, false, true, false, true, false, true, false)), (String
    ((Ascii (false, false, true, false, true, false, true, false)), (String
    ((Ascii (false, false, false, false, true, false, true, false)), (String
    ((Ascii (true, false, true, false, true, false, true, false)), (String
    ((Ascii (false, false, true, false, true, false, true, false)),
    EmptyString)))))))))))))))))))))))))))))))))))))))))))))), (Zpos (XO (XO
    (XI (XO (XI (XI (XI (XO (XI (XI (XO (XI (XO
    XH))))))))))))))) :: (((String ((Ascii (false, true, false, false, true,
    false, true, false)), (String ((Ascii (true, false, false, false, false,
    false, true, false)), (String ((Ascii (true, true, true, false, true,
    false, true, false)), (String ((Ascii (true, true, true, true, true,
    false, true, false)), (String ((Ascii (true, true, true, false, true,
    false, true, false)), (String ((Ascii (false, false, false, true, false,
    false, true, false)), (String ((Ascii (true, false, true, false, false,
    false, true, false)), (String ((Ascii (true, false, true, false, false,
    false, true, false)), (String ((Ascii (false, false, true, true, false,
    false, true, false)), (String ((Ascii (true, true, true, true, true,
    false, true, false)), (String ((Ascii (true, true, false, false, true,
    false, true, false)), (String ((Ascii (false, false, false, false, true,
    false, true, false)), (String ((Ascii (true, false, true, false, false,
    false, true, false)), (String ((Ascii (true, false, true, false, false,
    false, true, false)), (String ((Ascii (false, false, true, false, false,
    false, true, false)), (String ((Ascii (true, true, true, true, true,
    false, true, false)), (String ((Ascii (true, true, true, true, false,
    false, true, false)), (String ((Ascii (true, false, true, false, true,
    false, true, false)), (String ((Ascii (false, false, true, false, true,
    false, true, false)), (String ((Ascii (false, false, false, false, true,
    false, true, false)), (String ((Ascii (true, false, true, false, true,
    false, true, false)), (String ((Ascii (false, false, true, false, true,
    false, true, false)),
    EmptyString)))))))))))))))))))))))))))))))))))))))))))), (Zpos (XI (XO
    (XI (XO (XI (XI (XI (XO (XI (XI (XO (XI (XO
    XH))))))))))))))) :: (((String ((Ascii (false, true, false, false, true,
    false, true, false)), (String ((Ascii (true, false, false, false, false,
    false, true, false)), (String ((Ascii (true, true, true, false, true,
    false, true, false)), (String ((Ascii (true, true, true, true, true,
    false, true, false)), (String ((Ascii (false, true, true, false, true,
    false, true, false)), (String ((Ascii (true, false, true, false, false,
    false, true, false)), (String ((Ascii (false, false, false, true, false,
    false, true, false)), (String ((Ascii (true, false, false, true, false,
    false, true, false)), (String ((Ascii (true, true, false, false, false,
    false, true, false)), (String ((Ascii (false, false, true, true, false,
    false, true, false)), (String ((Ascii (true, false, true, false, false,
    false, true, false)), (String ((Ascii (true, true, true, true, true,
    false, true, false)), (String ((Ascii (true, true, false, false, true,
    false, true, false)), (String ((Ascii (false, false, false, false, true,
    false, true, false)), (String ((Ascii (true, false, true, false, false,
    false, true, false)), (String ((Ascii (true, false, true, false, false,
    false, true, false)), (String ((Ascii (false, false, true, false, false,
    false, true, false)), (String ((Ascii (true, true, true, true, true,
    false, true, false)), (String ((Ascii (true, true, true, true, false,
    false, true, false)), (String ((Ascii (true, false, true, false, true,
    false, true, false)), (String ((Ascii (false, false, true, false, true,
    false, true, false)), (String ((Ascii (false, false, false, false, true,
    false, true, false)), (String ((Ascii (true, false, true, false, true,
    false, true, false)), (String ((Ascii (false, false, true, false, true,
    false, true, false)),
    EmptyString)))))))))))))))))))))))))))))))))))))))))))))))), (Zpos (XO
    (XI (XI (XO (XI (XI (XI (XO (XI (XI (XO (XI (XO
    XH))))))))))))))) :: (((String ((Ascii (true, true, true, false, true,
    false, true, false)), (String ((Ascii (false, false, false, true, false,
    false, true, false)), (String ((Ascii (true, false, true, false, false,
    false, true, false)), (String ((Ascii (true, false, true, false, false,
    false, true, false)), (String ((Ascii (false, false, true, true, false,
    false, true, false)), (String ((Ascii (true, true, true, true, true,
    false, true, false)), (String ((Ascii (true, true, false, false, true,
    false, true, false)), (String ((Ascii (false, false, false, false, true,
    false, true, false)), (String ((Ascii (true, false, true, false, false,
    false, true, false)), (String ((Ascii (true, false, true, false, false,
    false, true, false)), (String ((Ascii (false, false, true, false, false,
    false, true, false)), (String ((Ascii (true, true, true, true, true,
    false, true, false)), (String ((Ascii (true, true, true, true, false,
    false, true, false)), (String ((Ascii (true, false, true, false, true,
    false, true, false)), (String ((Ascii (false, false, true, false, true,
    false, true, false)), (String ((Ascii (false, false, false, false, true,
    false, true, false)), (String ((Ascii (true, false, true, false, true,
    false, true, false)), (String ((Ascii (false, false, true, false, true,
    false, true, false)), EmptyString)))))))))))))))))))))))))))))))))))),
    (Zpos (XI (XI (XI (XI (XI (XI (XI (XO (XI (XI (XO (XI (XO
    XH))))))))))))))) :: (((String ((Ascii (false, true, true, false, true,
    false, true, false)), (String ((Ascii (true, false, true, false, false,
    false, true, false)), (String ((Ascii (false, false, false, true, false,
    false, true, false)), (String ((Ascii (true, false, false, true, false,
    false, true, false)), (String ((Ascii (true, true, false, false, false,
    false, true, false)), (String ((Ascii (false, false, true, true, false,
    false, true, false)), (String ((Ascii (true, false, true, false, false,
    false, true, false)), (String ((Ascii (true, true, true, true, true,
    false, true, false)), (String ((Ascii (true, true, false, false, true,
    false, true, false)), (String ((Ascii (false, false, false, false, true,
    false, true, false)), (String ((Ascii (true, false, true, false, false,
    false, true, false)), (String ((Ascii (true, false, true, false, false,
    false, true, false)), (String ((Ascii (false, false, true, false, false,
    false, true, false)), (String ((Ascii (true, true, true, true, true,
    false, true, false)), (String ((Ascii (true, true, true, true, false,
    false, true, false)), (String ((Ascii (true, false, true, false, true,
    false, true, false)), (String ((Ascii (false, false, true, false, true,
    false, true, false)), (String ((Ascii (false, false, false, false, true,
    false, true, false)), (String ((Ascii (true, false, true, false, true,
    false, true, false)), (String ((Ascii (false, false, true, false, true,
    false, true, false)),
    EmptyString)))))))))))))))))))))))))))))))))))))))), (Zpos (XO (XO (XO
    (XO (XO (XO (XO (XI (XI (XI (XO (XI (XO XH))))))))))))))) :: (((String
    ((Ascii (false, true, false, false, true, false, true, false)), (String
    ((Ascii (true, true, true, true, false, false, true, false)), (String
    ((Ascii (true, true, false, false, true, false, true, false)), (String
    ((Ascii (true, true, true, true, true, false, true, false)), (String
    ((Ascii (false, false, false, false, true, false, true, false)), (String
    ((Ascii (true, true, true, true, false, false, true, false)), (String
    ((Ascii (true, true, false, false, true, false, true, false)), (String
    ((Ascii (true, false, true, false, false, false, true, false)),
    EmptyString)))))))))))))))), (Zpos (XO (XO (XO (XO (XO (XI (XI (XI (XO
    (XI (XI (XI (XO XH))))))))))))))) :: (((String ((Ascii (false, true,
    false, false, true, false, true, false)), (String ((Ascii (true, true,
    true, true, false, false, true, false)), (String ((Ascii (true, true,
    false, false, true, false, true, false)), (String ((Ascii (true, true,
    true, true, true, false, true, false)), (String ((Ascii (true, true,
    true, false, false, false, true, false)), (String ((Ascii (false, false,
    false, false, true, false, true, false)), (String ((Ascii (true, true,
    false, false, true, false, true, false)), (String ((Ascii (true, true,
    true, true, true, false, true, false)), (String ((Ascii (false, true,
    true, false, false, false, true, false)), (String ((Ascii (true, false,
    false, true, false, false, true, false)), (String ((Ascii (false, false,
    false, true, true, false, true, false)),
    EmptyString)))))))))))))))))))))), (Zpos (XO (XI (XO (XI (XO (XI (XI (XI
    (XO (XI (XI (XI (XO XH))))))))))))))) :: (((String ((Ascii (false, true,
    false, false, true, false, true, false)), (String ((Ascii (true, true,
    true, true, false, false, true, false)), (String ((Ascii (true, true,
    false, false, true, false, true, false)), (String ((Ascii (true, true,
    true, true, true, false, true, false)), (String ((Ascii (true, false,
    false, true, false, false, true, false)), (String ((Ascii (true, false,
    true, true, false, false, true, false)), (String ((Ascii (true, false,
    true, false, true, false, true, false)), EmptyString)))))))))))))), (Zpos
    (XI (XI (XO (XI (XO (XI (XI (XI (XO (XI (XI (XI (XO
    XH))))))))))))))) :: (((String ((Ascii (true, true, false, false, false,
    false, true, false)), (String ((Ascii (true, true, true, true, false,
    false, true, false)), (String ((Ascii (true, false, true, true, false,
    false, true, false)), (String ((Ascii (true, false, true, true, false,
    false, true, false)), (String ((Ascii (true, false, false, false, false,
    false, true, false)), (String ((Ascii (false, true, true, true, false,
    false, true, false)), (String ((Ascii (false, false, true, false, false,
    false, true, false)), (String ((Ascii (true, true, true, true, true,
    false, true, false)), (String ((Ascii (false, true, false, false, true,
    false, true, false)), (String ((Ascii (true, false, true, false, false,
    false, true, false)), (String ((Ascii (true, true, false, false, true,
    false, true, false)), (String ((Ascii (false, false, false, false, true,
    false, true, false)), (String ((Ascii (true, true, true, true, false,
    false, true, false)), (String ((Ascii (false, true, true, true, false,
    false, true, false)), (String ((Ascii (true, true, false, false, true,
    false, true, false)), (String ((Ascii (true, false, true, false, false,
    false, true, false)), EmptyString)))))))))))))))))))))))))))))))), (Zpos
    (XO (XO (XO (XI (XO (XO (XI (XI (XO (XI (XO (XO (XI
    XH))))))))))))))) :: (((String ((Ascii (true, false, true, true, false,
    false, true, false)), (String ((Ascii (true, false, true, false, false,
    false, true, false)), (String ((Ascii (true, true, false, false, true,
    false, true, false)), (String ((Ascii (true, true, false, false, true,
    false, true, false)), (String ((Ascii (true, false, false, false, false,
    false, true, false)), (String ((Ascii (true, true, true, false, false,
    false, true, false)), (String ((Ascii (true, false, true, false, false,
    false, true, false)), (String ((Ascii (true, true, true, true, true,
    false, true, false)), (String ((Ascii (false, true, false, false, true,
    false, true, false)), (String ((Ascii (true, false, true, false, false,
    false, true, false)), (String ((Ascii (true, false, false, false, true,
    false, true, false)), (String ((Ascii (true, false, true, false, true,
    false, true, false)), (String ((Ascii (true, false, true, false, false,
    false, true, false)), (String ((Ascii (true, true, false, false, true,
    false, true, false)), (String ((Ascii (false, false, true, false, true,
    false, true, false)), EmptyString)))))))))))))))))))))))))))))), (Zpos
    (XI (XO (XO (XI (XO (XO (XI (XI (XO (XI (XO (XO (XI
    XH))))))))))))))) :: (((String ((Ascii (false, true, false, false, true,
    false, true, false)), (String ((Ascii (true, false, true, false, false,
    false, true, false)), (String ((Ascii (true, true, false, false, true,
    false, true, false)), (String ((Ascii (true, false, true, false, false,
    false, true, false)), (String ((Ascii (false, false, true, false, true,
    false, true, false)), (String ((Ascii (true, true, true, true, true,
    false, true, false)), (String ((Ascii (false, true, false, false, true,
    false, true, false)), (String ((Ascii (true, false, true, false, false,
    false, true, false)), (String ((Ascii (true, false, false, false, true,
    false, true, false)), (String ((Ascii (true, false, true, false, true,
    false, true, false)), (String ((Ascii (true, false, true, false, false,
    false, true, false)), (String ((Ascii (true, true, false, false, true,
    false, true, false)), (String ((Ascii (false, false, true, false, true,
    false, true, false)), EmptyString)))))))))))))))))))))))))), (Zpos (XO
    (XI (XO (XI (XO (XO (XI (XI (XO (XI (XO (XO (XI
    XH))))))))))))))) :: (((String ((Ascii (false, true, true, false, true,
    false, true, false)), (String ((Ascii (true, false, true, false, false,
    false, true, false)), (String ((Ascii (false, true, false, false, true,
    false, true, false)), (String ((Ascii (true, true, false, false, true,
    false, true, false)), (String ((Ascii (true, false, false, true, false,
    false, true, false)), (String ((Ascii (true, true, true, true, false,
    false, true, false)), (String ((Ascii (false, true, true, true, false,
    false, true, false)), (String ((Ascii (true, true, true, true, true,
    false, true, false)), (String ((Ascii (true, false, false, true, false,
    false, true, false)), (String ((Ascii (false, true, true, true, false,
    false, true, false)), (String ((Ascii (false, true, true, false, false,
    false, true, false)), (String ((Ascii (true, true, true, true, false,
    false, true, false)), EmptyString)))))))))))))))))))))))), (Zpos (XI (XI
    (XO (XI (XO (XO (XI (XI (XO (XI (XO (XO (XI
    XH))))))))))))))) :: (((String ((Ascii (true, false, true, false, false,
    false, true, false)), (String ((Ascii (false, true, true, false, true,
    false, true, false)), (String ((Ascii (true, false, true, false, false,
    false, true, false)), (String ((Ascii (false, true, true, true, false,
    false, true, false)), (String ((Ascii (false, false, true, false, true,
    false, true, false)), (String ((Ascii (true, true, true, true, true,
    false, true, false)), (String ((Ascii (false, true, true, true, false,
    false, true, false)), (String ((Ascii (true, true, true, true, false,
    false, true, false)), (String ((Ascii (false, false, true, false, true,
    false, true, false)), (String ((Ascii (true, false, false, true, false,
    false, true, false)), (String ((Ascii (false, true, true, false, false,
    false, true, false)), (String ((Ascii (true, false, false, true, false,
    false, true, false)), (String ((Ascii (true, true, false, false, false,
    false, true, false)), (String ((Ascii (true, false, false, false, false,
    false, true, false)), (String ((Ascii (false, false, true, false, true,
    false, true, false)), (String ((Ascii (true, false, false, true, false,
    false, true, false)), (String ((Ascii (true, true, true, true, false,
    false, true, false)), (String ((Ascii (false, true, true, true, false,
    false, true, false)), EmptyString)))))))))))))))))))))))))))))))))))),
    (Zpos (XO (XO (XI (XI (XO (XO (XI (XI (XO (XI (XO (XO (XI
    XH))))))))))))))) :: (((String ((Ascii (true, true, false, false, true,
    false, true, false)), (String ((Ascii (false, false, false, true, false,
    false, true, false)), (String ((Ascii (true, false, true, false, true,
    false, true, false)), (String ((Ascii (false, false, true, false, true,
    false, true, false)), (String ((Ascii (false, false, true, false, false,
    false, true, false)), (String ((Ascii (true, true, true, true, false,
    false, true, false)), (String ((Ascii (true, true, true, false, true,
    false, true, false)), (String ((Ascii (false, true, true, true, false,
    false, true, false)), (String ((Ascii (true, true, true, true, true,
    false, true, false)), (String ((Ascii (false, true, false, false, true,
    false, true, false)), (String ((Ascii (true, false, true, false, false,
    false, true, false)), (String ((Ascii (true, false, false, false, true,
    false, true, false)), (String ((Ascii (true, false, true, false, true,
    false, true, false)), (String ((Ascii (true, false, true, false, false,
    false, true, false)), (String ((Ascii (true, true, false, false, true,
    false, true, false)), (String ((Ascii (false, false, true, false, true,
    false, true, false)), EmptyString)))))))))))))))))))))))))))))))), (Zpos
    (XI (XO (XI (XI (XO (XO (XI (XI (XO (XI (XO (XO (XI
    XH))))))))))))))) :: (((String ((Ascii (false, true, true, false, false,
    false, true, false)), (String ((Ascii (true, false, false, false, false,
    false, true, false)), (String ((Ascii (true, false, true, false, true,
    false, true, false)), (String ((Ascii (false, false, true, true, false,
    false, true, false)), (String ((Ascii (false, false, true, false, true,
    false, true, false)), (String ((Ascii (true, true, true, true, true,
    false, true, false)), (String ((Ascii (true, true, false, false, false,
    false, true, false)), (String ((Ascii (true, true, true, true, false,
    false, true, false)), (String ((Ascii (false, true, true, true, false,
    false, true, false)), (String ((Ascii (false, false, true, false, true,
    false, true, false)), (String ((Ascii (false, true, false, false, true,
    false, true, false)), (String ((Ascii (true, true, true, true, false,
    false, true, false)), (String ((Ascii (false, false, true, true, false,
    false, true, false)), EmptyString)))))))))))))))))))))))))), (Zpos (XO
    (XI (XI (XI (XO (XO (XI (XI (XO (XI (XO (XO (XI
    XH))))))))))))))) :: (((String ((Ascii (false, false, true, false, false,
    false, true, false)), (String ((Ascii (true, false, true, false, false,
    false, true, false)), (String ((Ascii (false, true, true, false, true,
    false, true, false)), (String ((Ascii (true, false, false, true, false,
    false, true, false)), (String ((Ascii (true, true, false, false, false,
    false, true, false)), (String ((Ascii (true, false, true, false, false,
    false, true, false)), (String ((Ascii (true, true, true, true, true,
    false, true, false)), (String ((Ascii (true, false, false, true, false,
    false, true, false)), (String ((Ascii (false, false, true, false, false,
    false, true, false)), EmptyString)))))))))))))))))), (Zpos (XI (XI (XI
    (XI (XO (XO (XI (XI (XO (XI (XO (XO (XI XH))))))))))))))) :: (((String
    ((Ascii (true, true, false, false, true, false, true, false)), (String
    ((Ascii (false, false, true, false, true, false, true, false)), (String
    ((Ascii (true, false, false, false, false, false, true, false)), (String
    ((Ascii (false, true, false, false, true, false, true, false)), (String
    ((Ascii (false, false, true, false, true, false, true, false)), (String
    ((Ascii (true, false, true, false, true, false, true, false)), (String
    ((Ascii (false, false, false, false, true, false, true, false)), (String
    ((Ascii (true, true, true, true, true, false, true, false)), (String
    ((Ascii (false, true, false, false, true, false, true, false)), (String
    ((Ascii (true, false, true, false, false, false, true, false)), (String
    ((Ascii (true, false, false, false, true, false, true, false)), (String
    ((Ascii (true, false, true, false, true, false, true, false)), (String
    ((Ascii (true, false, true, false, false, false, true, false)), (String
    ((Ascii (true, true, false, false, true, false, true, false)), (String
    ((Ascii (false, false, true, false, true, false, true, false)),
    EmptyString)))))))))))))))))))))))))))))), (Zpos (XO (XO (XO (XO (XI (XO
    (XI (XI (XO (XI (XO (XO (XI XH))))))))))))))) :: (((String ((Ascii (true,
    true, false, false, true, false, true, false)), (String ((Ascii (true,
    false, true, false, false, false, true, false)), (String ((Ascii (false,
    false, true, false, true, false, true, false)), (String ((Ascii (true,
    true, true, true, true, false, true, false)), (String ((Ascii (true,
    true, false, false, false, false, true, false)), (String ((Ascii (true,
    true, true, true, false, false, true, false)), (String ((Ascii (false,
    true, true, true, false, false, true, false)), (String ((Ascii (false,
    true, true, false, false, false, true, false)), (String ((Ascii (true,
    false, false, true, false, false, true, false)), (String ((Ascii (true,
    true, true, false, false, false, true, false)),
    EmptyString)))))))))))))))))))), (Zpos (XO (XO (XI (XI (XO (XI (XO (XO
    (XI (XI (XO (XO (XI XH))))))))))))))) :: (((String ((Ascii (true, true,
    true, false, false, false, true, false)), (String ((Ascii (true, false,
    true, false, false, false, true, false)), (String ((Ascii (false, false,
    true, false, true, false, true, false)), (String ((Ascii (true, true,
    true, true, true, false, true, false)), (String ((Ascii (true, true,
    false, false, false, false, true, false)), (String ((Ascii (true, true,
    true, true, false, false, true, false)), (String ((Ascii (false, true,
    true, true, false, false, true, false)), (String ((Ascii (false, true,
    true, false, false, false, true, false)), (String ((Ascii (true, false,
    false, true, false, false, true, false)), (String ((Ascii (true, true,
    true, false, false, false, true, false)),
    EmptyString)))))))))))))))))))), (Zpos (XI (XO (XI (XI (XO (XI (XO (XO
    (XI (XI (XO (XO (XI XH))))))))))))))) :: (((String ((Ascii (true, true,
    false, false, true, false, true, false)), (String ((Ascii (true, false,
    false, false, false, false, true, false)), (String ((Ascii (false, true,
    true, false, true, false, true, false)), (String ((Ascii (true, false,
    true, false, false, false, true, false)), (String ((Ascii (true, true,
    true, true, true, false, true, false)), (String ((Ascii (true, true,
    false, false, false, false, true, false)), (String ((Ascii (true, true,
    true, true, false, false, true, false)), (String ((Ascii (false, true,
    true, true, false, false, true, false)), (String ((Ascii (false, true,
    true, false, false, false, true, false)), (String ((Ascii (true, false,
    false, true, false, false, true, false)), (String ((Ascii (true, true,
    true, false, false, false, true, false)),
    EmptyString)))))))))))))))))))))), (Zpos (XO (XI (XI (XI (XO (XI (XO (XO
    (XI (XI (XO (XO (XI XH))))))))))))))) :: (((String ((Ascii (true, true,
    false, false, false, false, true, false)), (String ((Ascii (true, true,
    true, true, false, false, true, false)), (String ((Ascii (false, true,
    true, true, false, false, true, false)), (String ((Ascii (false, true,
    true, false, false, false, true, false)), (String ((Ascii (true, false,
    false, true, false, false, true, false)), (String ((Ascii (true, true,
    true, false, false, false, true, false)), (String ((Ascii (true, true,
    true, true, true, false, true, false)), (String ((Ascii (false, true,
    false, false, true, false, true, false)), (String ((Ascii (true, false,
    true, false, false, false, true, false)), (String ((Ascii (true, true,
    false, false, true, false, true, false)), (String ((Ascii (false, false,
    false, false, true, false, true, false)), (String ((Ascii (true, true,
    true, true, false, false, true, false)), (String ((Ascii (false, true,
    true, true, false, false, true, false)), (String ((Ascii (true, true,
    false, false, true, false, true, false)), (String ((Ascii (true, false,
    true, false, false, false, true, false)),
    EmptyString)))))))))))))))))))))))))))))), (Zpos (XI (XI (XI (XI (XO (XI
    (XO (XO (XI (XI (XO (XO (XI XH))))))))))))))) :: (((String ((Ascii (true,
    false, false, true, false, false, true, false)), (String ((Ascii (true,
    false, true, true, false, false, true, false)), (String ((Ascii (false,
    false, false, false, true, false, true, false)), (String ((Ascii (true,
    true, true, true, false, false, true, false)), (String ((Ascii (false,
    true, false, false, true, false, true, false)), (String ((Ascii (false,
    false, true, false, true, false, true, false)), (String ((Ascii (true,
    true, true, true, true, false, true, false)), (String ((Ascii (false,
    false, true, false, false, false, true, false)), (String ((Ascii (true,
    false, false, false, false, false, true, false)), (String ((Ascii (false,
    false, true, false, true, false, true, false)), (String ((Ascii (true,
    false, false, false, false, false, true, false)),
    EmptyString)))))))))))))))))))))), (Zpos (XO (XI (XI (XO (XI (XI (XO (XO
    (XI (XI (XO (XO (XI XH))))))))))))))) :: (((String ((Ascii (true, false,
    true, false, false, false, true, false)), (String ((Ascii (false, false,
    false, true, true, false, true, false)), (String ((Ascii (false, false,
    false, false, true, false, true, false)), (String ((Ascii (true, true,
    true, true, false, false, true, false)), (String ((Ascii (false, true,
    false, false, true, false, true, false)), (String ((Ascii (false, false,
    true, false, true, false, true, false)), (String ((Ascii (true, true,
    true, true, true, false, true, false)), (String ((Ascii (false, false,
    true, false, false, false, true, false)), (String ((Ascii (true, false,
    false, false, false, false, true, false)), (String ((Ascii (false, false,
    true, false, true, false, true, false)), (String ((Ascii (true, false,
    false, false, false, false, true, false)),
    EmptyString)))))))))))))))))))))), (Zpos (XI (XI (XI (XO (XI (XI (XO (XO
    (XI (XI (XO (XO (XI XH))))))))))))))) :: (((String ((Ascii (false, false,
    false, false, true, false, true, false)), (String ((Ascii (false, false,
    true, true, false, false, true, false)), (String ((Ascii (true, false,
    false, false, false, false, true, false)), (String ((Ascii (false, false,
    true, false, true, false, true, false)), (String ((Ascii (false, true,
    true, false, false, false, true, false)), (String ((Ascii (true, true,
    true, true, false, false, true, false)), (String ((Ascii (false, true,
    false, false, true, false, true, false)), (String ((Ascii (true, false,
    true, true, false, false, true, false)), (String ((Ascii (true, true,
    true, true, true, false, true, false)), (String ((Ascii (true, true,
    false, false, true, false, true, false)), (String ((Ascii (false, false,
    true, false, true, false, true, false)), (String ((Ascii (true, true,
    true, true, false, false, true, false)), (String ((Ascii (false, true,
    false, false, true, false, true, false)), (String ((Ascii (true, false,
    false, false, false, false, true, false)), (String ((Ascii (true, true,
    true, false, false, false, true, false)), (String ((Ascii (true, false,
    true, false, false, false, true, false)), (String ((Ascii (true, true,
    true, true, true, false, true, false)), (String ((Ascii (false, false,
    true, false, false, false, true, false)), (String ((Ascii (true, false,
    false, false, false, false, true, false)), (String ((Ascii (false, false,
    true, false, true, false, true, false)), (String ((Ascii (true, false,
    false, false, false, false, true, false)),
    EmptyString)))))))))))))))))))))))))))))))))))))))))), (Zpos (XI (XO (XO
    (XI (XI (XI (XO (XO (XI (XI (XO (XO (XI XH))))))))))))))) :: (((String
    ((Ascii (true, false, false, true, false, false, true, false)), (String
    ((Ascii (false, true, true, true, false, false, true, false)), (String
    ((Ascii (false, false, false, false, true, false, true, false)), (String
    ((Ascii (true, false, true, false, true, false, true, false)), (String
    ((Ascii (false, false, true, false, true, false, true, false)), (String
    ((Ascii (true, true, true, true, true, false, true, false)), (String
    ((Ascii (false, false, true, false, false, false, true, false)), (String
    ((Ascii (true, false, false, false, false, false, true, false)), (String
    ((Ascii (false, false, true, false, true, false, true, false)), (String
    ((Ascii (true, false, false, false, false, false, true, false)), (String
    ((Ascii (true, true, true, true, true, false, true, false)), (String
    ((Ascii (true, true, true, false, true, false, true, false)), (String
    ((Ascii (false, true, false, false, true, false, true, false)), (String
    ((Ascii (true, false, false, false, false, false, true, false)), (String
    ((Ascii (false, false, false, false, true, false, true, false)), (String
    ((Ascii (false, false, false, false, true, false, true, false)), (String
    ((Ascii (true, false, true, false, false, false, true, false)), (String
    ((Ascii (false, true, false, false, true, false, true, false)),
    EmptyString)))))))))))))))))))))))))))))))))))), (Zpos (XO (XO (XO (XO
    (XO (XO (XI (XO (XI (XI (XO (XO (XI XH))))))))))))))) :: (((String
    ((Ascii (true, true, false, false, true, false, true, false)), (String
    ((Ascii (true, false, true, false, false, false, true, false)), (String
    ((Ascii (false, false, true, false, true, false, true, false)), (String
    ((Ascii (true, true, true, true, true, false, true, false)), (String
    ((Ascii (true, false, true, true, false, false, true, false)), (String
    ((Ascii (true, false, true, false, false, false, true, false)), (String
    ((Ascii (true, true, false, false, true, false, true, false)), (String
    ((Ascii (true, true, false, false, true, false, true, false)), (String
    ((Ascii (true, false, false, false, false, false, true, false)), (String
    ((Ascii (true, true, true, false, false, false, true, false)), (String
    ((Ascii (true, false, true, false, false, false, true, false)), (String
    ((Ascii (true, true, true, true, true, false, true, false)), (String
    ((Ascii (false, true, false, false, true, false, true, false)), (String
    ((Ascii (true, false, false, false, false, false, true, false)), (String
    ((Ascii (false, false, true, false, true, false, true, false)), (String
    ((Ascii (true, false, true, false, false, false, true, false)),
    EmptyString)))))))))))))))))))))))))))))))), (Zpos (XO (XO (XI (XO (XO
    (XI (XO (XI (XI (XI (XO (XO (XI XH))))))))))))))) :: (((String ((Ascii
    (true, true, true, false, false, false, true, false)), (String ((Ascii
    (true, false, true, false, false, false, true, false)), (String ((Ascii
    (false, false, true, false, true, false, true, false)), (String ((Ascii
    (true, true, true, true, true, false, true, false)), (String ((Ascii
    (true, false, true, true, false, false, true, false)), (String ((Ascii
    (true, false, true, false, false, false, true, false)), (String ((Ascii
    (true, true, false, false, true, false, true, false)), (String ((Ascii
    (true, true, false, false, true, false, true, false)), (String ((Ascii
    (true, false, false, false, false, false, true, false)), (String ((Ascii
    (true, true, true, false, false, false, true, false)), (String ((Ascii
    (true, false, true, false, false, false, true, false)), (String ((Ascii
    (true, true, true, true, true, false, true, false)), (String ((Ascii
    (false, true, false, false, true, false, true, false)), (String ((Ascii
    (true, false, false, false, false, false, true, false)), (String ((Ascii
    (false, false, true, false, true, false, true, false)), (String ((Ascii
    (true, false, true, false, false, false, true, false)),
    EmptyString)))))))))))))))))))))))))))))))), (Zpos (XI (XO (XI (XO (XO
    (XI (XO (XI (XI (XI (XO (XO (XI XH))))))))))))))) :: (((String ((Ascii
    (true, false, true, true, false, false, true, false)), (String ((Ascii
    (true, false, true, false, false, false, true, false)), (String ((Ascii
    (true, true, false, false, true, false, true, false)), (String ((Ascii
    (true, true, false, false, true, false, true, false)), (String ((Ascii
    (true, false, false, false, false, false, true, false)), (String ((Ascii
    (true, true, true, false, false, false, true, false)), (String ((Ascii
    (true, false, true, false, false, false, true, false)), (String ((Ascii
    (true, true, true, true, true, false, true, false)), (String ((Ascii
    (false, true, false, false, true, false, true, false)), (String ((Ascii
    (true, false, false, false, false, false, true, false)), (String ((Ascii
    (false, false, true, false, true, false, true, false)), (String ((Ascii
    (true, false, true, false, false, false, true, false)), (String ((Ascii
    (true, true, true, true, true, false, true, false)), (String ((Ascii
    (false, true, false, false, true, false, true, false)), (String ((Ascii
    (true, false, true, false, false, false, true, false)), (String ((Ascii
    (true, true, false, false, true, false, true, false)), (String ((Ascii
    (false, false, false, false, true, false, true, false)), (String ((Ascii
    (true, true, true, true, false, false, true, false)), (String ((Ascii
    (false, true, true, true, false, false, true, false)), (String ((Ascii
    (true, true, false, false, true, false, true, false)), (String ((Ascii
    (true, false, true, false, false, false, true, false)),
    EmptyString)))))))))))))))))))))))))))))))))))))))))), (Zpos (XO (XI (XI
    (XO (XO (XI (XO (XI (XI (XI (XO (XO (XI XH))))))))))))))) :: (((String
    ((Ascii (true, true, false, false, true, false, true, false)), (String
    ((Ascii (true, false, true, false, true, false, true, false)), (String
    ((Ascii (false, false, false, false, true, false, true, false)), (String
    ((Ascii (false, false, false, false, true, false, true, false)), (String
    ((Ascii (true, true, true, true, false, false, true, false)), (String
    ((Ascii (false, true, false, false, true, false, true, false)), (String
    ((Ascii (false, false, true, false, true, false, true, false)), (String
    ((Ascii (true, false, true, false, false, false, true, false)), (String
    ((Ascii (false, false, true, false, false, false, true, false)), (String
    ((Ascii (true, true, true, true, true, false, true, false)), (String
    ((Ascii (true, false, false, true, false, false, true, false)), (String
    ((Ascii (true, true, true, true, false, false, true, false)), (String
    ((Ascii (true, true, true, true, true, false, true, false)), (String
    ((Ascii (true, false, false, true, false, false, true, false)), (String
    ((Ascii (false, true, true, true, false, false, true, false)), (String
    ((Ascii (false, false, true, false, true, false, true, false)), (String
    ((Ascii (true, false, true, false, false, false, true, false)), (String
    ((Ascii (false, true, false, false, true, false, true, false)), (String
    ((Ascii (false, true, true, false, false, false, true, false)), (String
    ((Ascii (true, false, false, false, false, false, true, false)), (String
    ((Ascii (true, true, false, false, false, false, true, false)), (String
    ((Ascii (true, false, true, false, false, false, true, false)), (String
    ((Ascii (true, true, false, false, true, false, true, false)),
    EmptyString)))))))))))))))))))))))))))))))))))))))))))))), (Zpos (XI (XI
    (XI (XO (XO (XI (XO (XI (XI (XI (XO (XO (XI
    XH))))))))))))))) :: (((String ((Ascii (false, false, true, true, false,
    false, true, false)), (String ((Ascii (false, true, false, false, false,
    false, true, false)), (String ((Ascii (true, false, false, false, false,
    false, true, false)), (String ((Ascii (false, true, true, true, false,
    false, true, false)), (String ((Ascii (false, false, true, false, false,
    false, true, false)), (String ((Ascii (true, true, true, true, true,
    false, true, false)), (String ((Ascii (false, true, true, false, false,
    false, true, false)), (String ((Ascii (false, true, false, false, true,
    false, true, false)), (String ((Ascii (true, false, false, false, false,
    false, true, false)), (String ((Ascii (true, false, true, true, false,
    false, true, false)), (String ((Ascii (true, false, true, false, false,
    false, true, false)), EmptyString)))))))))))))))))))))), (Zpos (XO (XO
    (XO (XO (XI (XI (XO (XI (XO (XI (XI (XO (XI
    XH))))))))))))))) :: (((String ((Ascii (true, true, false, false, true,
    false, true, false)), (String ((Ascii (false, false, true, false, true,
    false, true, false)), (String ((Ascii (true, false, false, false, false,
    false, true, false)), (String ((Ascii (true, false, true, false, true,
    true, false, false)), (String ((Ascii (false, true, true, false, true,
    true, false, false)), (String ((Ascii (true, true, false, false, true,
    true, false, false)), (String ((Ascii (true, false, true, false, true,
    true, false, false)), (String ((Ascii (true, true, true, true, true,
    false, true, false)), (String ((Ascii (true, true, false, false, false,
    false, true, false)), (String ((Ascii (true, true, true, true, false,
    false, true, false)), (String ((Ascii (true, false, true, true, false,
    false, true, false)), (String ((Ascii (true, false, true, true, false,
    false, true, false)), (String ((Ascii (true, false, false, false, false,
    false, true, false)), (String ((Ascii (false, true, true, true, false,
    false, true, false)), (String ((Ascii (false, false, true, false, false,
    false, true, false)), EmptyString)))))))))))))))))))))))))))))), (Zpos
    (XO (XO (XI (XO (XI (XO (XO (XO (XI (XI (XI (XO (XI
    XH))))))))))))))) :: (((String ((Ascii (true, true, false, false, true,
    false, true, false)), (String ((Ascii (false, false, true, false, true,
    false, true, false)), (String ((Ascii (true, false, false, false, false,
    false, true, false)), (String ((Ascii (true, false, true, false, true,
    true, false, false)), (String ((Ascii (false, true, true, false, true,
    true, false, false)), (String ((Ascii (true, true, false, false, true,
    true, false, false)), (String ((Ascii (true, false, true, false, true,
    true, false, false)), (String ((Ascii (true, true, true, true, true,
    false, true, false)), (String ((Ascii (true, true, false, false, false,
    false, true, false)), (String ((Ascii (true, true, true, true, false,
    false, true, false)), (String ((Ascii (true, false, true, true, false,
    false, true, false)), (String ((Ascii (true, false, true, true, false,
    false, true, false)), (String ((Ascii (true, false, false, false, false,
    false, true, false)), (String ((Ascii (false, true, true, true, false,
    false, true, false)), (String ((Ascii (false, false, true, false, false,
    false, true, false)), (String ((Ascii (true, true, true, true, true,
    false, true, false)), (String ((Ascii (false, true, false, false, true,
    false, true, false)), (String ((Ascii (true, false, true, false, false,
    false, true, false)), (String ((Ascii (true, true, false, false, true,
    false, true, false)), (String ((Ascii (false, false, false, false, true,
    false, true, false)), (String ((Ascii (true, true, true, true, false,
    false, true, false)), (String ((Ascii (false, true, true, true, false,
    false, true, false)), (String ((Ascii (true, true, false, false, true,
    false, true, false)), (String ((Ascii (true, false, true, false, false,
    false, true, false)),
    EmptyString)))))))))))))))))))))))))))))))))))))))))))))))), (Zpos (XI
    (XO (XI (XO (XI (XO (XO (XO (XI (XI (XI (XO (XI
    XH))))))))))))))) :: (((String ((Ascii (true, true, false, false, true,
    false, true, false)), (String ((Ascii (false, false, true, false, true,
    false, true, false)), (String ((Ascii (true, false, false, false, false,
    false, true, false)), (String ((Ascii (true, false, true, false, true,
    true, false, false)), (String ((Ascii (false, true, true, false, true,
    true, false, false)), (String ((Ascii (true, true, false, false, true,
    true, false, false)), (String ((Ascii (true, false, true, false, true,
    true, false, false)), (String ((Ascii (true, true, true, true, true,
    false, true, false)), (String ((Ascii (true, false, false, true, false,
    false, true, false)), (String ((Ascii (true, false, false, false, true,
    false, true, false)), (String ((Ascii (true, true, true, true, true,
    false, true, false)), (String ((Ascii (false, false, true, false, false,
    false, true, false)), (String ((Ascii (true, false, false, false, false,
    false, true, false)), (String ((Ascii (false, false, true, false, true,
    false, true, false)), (String ((Ascii (true, false, false, false, false,
    false, true, false)), EmptyString)))))))))))))))))))))))))))))), (Zpos
    (XO (XI (XI (XO (XI (XO (XO (XO (XI (XI (XI (XO (XI
    XH))))))))))))))) :: (((String ((Ascii (false, true, false, false, true,
    false, true, false)), (String ((Ascii (true, false, true, false, false,
    false, true, false)), (String ((Ascii (true, true, false, false, true,
    false, true, false)), (String ((Ascii (true, false, true, false, false,
    false, true, false)), (String ((Ascii (false, true, false, false, true,
    false, true, false)), (String ((Ascii (false, true, true, false, true,
    false, true, false)), (String ((Ascii (true, false, true, false, false,
    false, true, false)), (String ((Ascii (false, false, true, false, false,
    false, true, false)), EmptyString)))))))))))))))), (Zpos (XO (XO (XO (XO
    (XO (XI (XO (XO (XO (XI (XI (XI (XO (XO
    XH)))))))))))))))) :: []))))))))))))))))))))))))))))))))))))))))))))))))))))))))) :: (((String
    ((Ascii (false, true, true, false, false, true, true, false)), (String
    ((Ascii (true, false, true, false, true, true, true, false)), (String
    ((Ascii (true, true, false, false, true, true, true, false)), (String
    ((Ascii (true, false, false, true, false, true, true, false)), (String
    ((Ascii (true, true, true, true, false, true, true, false)), (String
    ((Ascii (false, true, true, true, false, true, true, false)), (String
    ((Ascii (true, true, true, true, true, false, true, false)), (String
    ((Ascii (true, false, true, false, false, true, true, false)), (String
    ((Ascii (false, true, true, true, false, true, true, false)), (String
    ((Ascii (true, true, true, false, false, true, true, false)), (String
    ((Ascii (true, false, false, true, false, true, true, false)), (String
    ((Ascii (false, true, true, true, false, true, true, false)), (String
    ((Ascii (true, false, true, false, false, true, true, false)), (String
    ((Ascii (true, true, true, true, true, false, true, false)), (String
    ((Ascii (true, true, false, false, false, true, true, false)), (String
    ((Ascii (false, false, true, true, false, true, true, false)), (String
    ((Ascii (true, false, false, true, false, true, true, false)), (String
    ((Ascii (true, false, true, false, false, true, true, false)), (String
    ((Ascii (false, true, true, true, false, true, true, false)), (String
    ((Ascii (false, false, true, false, true, true, true, false)), (String
    ((Ascii (false, true, true, true, false, true, false, false)), (String
    ((Ascii (true, false, true, true, false, true, true, false)), (String
    ((Ascii (true, false, true, false, false, true, true, false)), (String
    ((Ascii (true, true, false, false, true, true, true, false)), (String
    ((Ascii (true, true, false, false, true, true, true, false)), (String
    ((Ascii (true, false, false, false, false, true, true, false)), (String
    ((Ascii (true, true, true, false, false, true, true, false)), (String
    ((Ascii (true, false, true, false, false, true, true, false)), (String
    ((Ascii (true, true, false, false, true, true, true, false)), (String
    ((Ascii (false, true, true, true, false, true, false, false)), (String
    ((Ascii (false, false, true, false, false, true, true, false)), (String
    ((Ascii (true, false, true, false, false, true, true, false)), (String
    ((Ascii (false, true, true, false, false, true, true, false)), (String
    ((Ascii (true, true, false, false, true, true, true, false)), (String
    ((Ascii (false, true, false, true, true, true, false, false)), (String
    ((Ascii (false, true, false, false, true, false, true, false)), (String
    ((Ascii (true, false, true, false, false, true, true, false)), (String
    ((Ascii (true, true, false, false, true, true, true, false)), (String
    ((Ascii (false, false, false, false, true, true, true, false)), (String
    ((Ascii (true, true, true, true, false, true, true, false)), (String
    ((Ascii (false, true, true, true, false, true, true, false)), (String
    ((Ascii (true, true, false, false, true, true, true, false)), (String
    ((Ascii (true, false, true, false, false, true, true, false)),
    EmptyString)))))))))))))))))))))))))))))))))))))))))))))))))))))))))))))))))))))))))))))))))))))),
    (((String ((Ascii (true, true, true, true, false, false, true, false)),
    (String ((Ascii (true, true, false, true, false, false, true, false)),
    EmptyString)))), Z0) :: (((String ((Ascii (true, false, true, false,
    true, false, true, false)), (String ((Ascii (false, true, true, true,
    false, false, true, false)), (String ((Ascii (true, true, false, false,
    true, false, true, false)), (String ((Ascii (true, false, true, false,
    true, false, true, false)), (String ((Ascii (false, false, false, false,
    true, false, true, false)), (String ((Ascii (false, false, false, false,
    true, false, true, false)), (String ((Ascii (true, true, true, true,
    false, false, true, false)), (String ((Ascii (false, true, false, false,
    true, false, true, false)), (String ((Ascii (false, false, true, false,
    true, false, true, false)), (String ((Ascii (true, false, true, false,
    false, false, true, false)), (String ((Ascii (false, false, true, false,
    false, false, true, false)), (String ((Ascii (true, true, true, true,
    true, false, true, false)), (String ((Ascii (true, true, false, false,
    false, false, true, false)), (String ((Ascii (true, false, true, true,
    false, false, true, false)), (String ((Ascii (false, false, true, false,
    false, false, true, false)), (String ((Ascii (true, true, true, true,
    true, false, true, false)), (String ((Ascii (false, true, true, false,
    true, false, true, false)), (String ((Ascii (true, false, true, false,
    false, false, true, false)), (String ((Ascii (false, true, false, false,
    true, false, true, false)), (String ((Ascii (true, true, false, false,
    true, false, true, false)), (String ((Ascii (true, false, false, true,
    false, false, true, false)), (String ((Ascii (true, true, true, true,
    false, false, true, false)), (String ((Ascii (false, true, true, true,
    false, false, true, false)),
    EmptyString)))))))))))))))))))))))))))))))))))))))))))))), (Zpos
    XH)) :: (((String ((Ascii (true, false, true, false, true, false, true,
    false)), (String ((Ascii (false, true, true, true, false, false, true,
    false)), (String ((Ascii (true, true, false, false, true, false, true,
    false)), (String ((Ascii (true, false, true, false, true, false, true,
    false)), (String ((Ascii (false, false, false, false, true, false, true,
    false)), (String ((Ascii (false, false, false, false, true, false, true,
    false)), (String ((Ascii (true, true, true, true, false, false, true,
    false)), (String ((Ascii (false, true, false, false, true, false, true,
    false)), (String ((Ascii (false, false, true, false, true, false, true,
    false)), (String ((Ascii (true, false, true, false, false, false, true,
    false)), (String ((Ascii (false, false, true, false, false, false, true,
    false)), (String ((Ascii (true, true, true, true, true, false, true,
    false)), (String ((Ascii (false, true, true, false, false, false, true,
    false)), (String ((Ascii (true, false, true, false, false, false, true,
    false)), (String ((Ascii (true, false, false, false, false, false, true,
    false)), (String ((Ascii (false, false, true, false, true, false, true,
    false)), (String ((Ascii (true, false, true, false, true, false, true,
    false)), (String ((Ascii (false, true, false, false, true, false, true,
    false)), (String ((Ascii (true, false, true, false, false, false, true,
    false)), EmptyString)))))))))))))))))))))))))))))))))))))), (Zpos (XO
    XH))) :: (((String ((Ascii (false, true, true, false, true, false, true,
    false)), (String ((Ascii (true, false, false, false, false, false, true,
    false)), (String ((Ascii (false, false, true, true, false, false, true,
    false)), (String ((Ascii (true, false, true, false, true, false, true,
    false)), (String ((Ascii (true, false, true, false, false, false, true,
    false)), (String ((Ascii (true, true, true, true, true, false, true,
    false)), (String ((Ascii (true, false, true, false, false, false, true,
    false)), (String ((Ascii (false, true, false, false, true, false, true,
    false)), (String ((Ascii (false, true, false, false, true, false, true,
    false)), (String ((Ascii (true, true, true, true, false, false, true,
    false)), (String ((Ascii (false, true, false, false, true, false, true,
    false)), EmptyString)))))))))))))))))))))), (Zpos (XI XH))) :: (((String
    ((Ascii (true, false, false, true, false, false, true, false)), (String
    ((Ascii (false, true, true, true, false, false, true, false)), (String
    ((Ascii (true, true, false, false, true, false, true, false)), (String
    ((Ascii (true, false, true, false, true, false, true, false)), (String
    ((Ascii (false, true, true, false, false, false, true, false)), (String
    ((Ascii (false, true, true, false, false, false, true, false)), (String
    ((Ascii (true, false, false, true, false, false, true, false)), (String
    ((Ascii (true, true, false, false, false, false, true, false)), (String
    ((Ascii (true, false, false, true, false, false, true, false)), (String
    ((Ascii (true, false, true, false, false, false, true, false)), (String
    ((Ascii (false, true, true, true, false, false, true, false)), (String
    ((Ascii (false, false, true, false, true, false, true, false)), (String
    ((Ascii (true, true, true, true, true, false, true, false)), (String
    ((Ascii (true, true, false, false, true, false, true, false)), (String
    ((Ascii (false, false, false, false, true, false, true, false)), (String
    ((Ascii (true, false, false, false, false, false, true, false)), (String
    ((Ascii (true, true, false, false, false, false, true, false)), (String
    ((Ascii (true, false, true, false, false, false, true, false)),
    EmptyString)))))))))))))))))))))))))))))))))))), (Zpos (XO (XO
    XH)))) :: (((String ((Ascii (true, false, true, false, false, false,
    true, false)), (String ((Ascii (false, false, false, true, true, false,
    true, false)), (String ((Ascii (true, false, true, false, false, false,
    true, false)), (String ((Ascii (true, true, false, false, false, false,
    true, false)), (String ((Ascii (true, false, true, false, true, false,
    true, false)), (String ((Ascii (false, false, true, false, true, false,
    true, false)), (String ((Ascii (true, false, false, true, false, false,
    true, false)), (String ((Ascii (true, true, true, true, false, false,
    true, false)), (String ((Ascii (false, true, true, true, false, false,
    true, false)), (String ((Ascii (true, true, true, true, true, false,
    true, false)), (String ((Ascii (false, true, true, false, false, false,
    true, false)), (String ((Ascii (true, false, false, false, false, false,
    true, false)), (String ((Ascii (true, false, false, true, false, false,
    true, false)), (String ((Ascii (false, false, true, true, false, false,
    true, false)), (String ((Ascii (true, false, true, false, true, false,
    true, false)), (String ((Ascii (false, true, false, false, true, false,
    true, false)), (String ((Ascii (true, false, true, false, false, false,
    true, false)), EmptyString)))))))))))))))))))))))))))))))))), (Zpos (XI
    (XO XH)))) :: (((String ((Ascii (true, false, false, true, false, false,
    true, false)), (String ((Ascii (false, true, true, true, false, false,
    true, false)), (String ((Ascii (true, true, false, false, false, false,
    true, false)), (String ((Ascii (true, true, true, true, false, false,
    true, false)), (String ((Ascii (false, true, true, true, false, false,
    true, false)), (String ((Ascii (true, true, false, false, true, false,
    true, false)), (String ((Ascii (true, false, false, true, false, false,
    true, false)), (String ((Ascii (true, true, false, false, true, false,
    true, false)), (String ((Ascii (false, false, true, false, true, false,
    true, false)), (String ((Ascii (true, false, true, false, false, false,
    true, false)), (String ((Ascii (false, true, true, true, false, false,
    true, false)), (String ((Ascii (false, false, true, false, true, false,
    true, false)), (String ((Ascii (true, true, true, true, true, false,
    true, false)), (String ((Ascii (false, false, false, false, true, false,
    true, false)), (String ((Ascii (true, false, false, false, false, false,
    true, false)), (String ((Ascii (true, false, false, true, true, false,
    true, false)), (String ((Ascii (false, false, true, true, false, false,
    true, false)), (String ((Ascii (true, true, true, true, false, false,
    true, false)), (String ((Ascii (true, false, false, false, false, false,
    true, false)), (String ((Ascii (false, false, true, false, false, false,
    true, false)), (String ((Ascii (true, true, true, true, true, false,
    true, false)), (String ((Ascii (false, false, true, true, false, false,
    true, false)), (String ((Ascii (true, false, true, false, false, false,
    true, false)), (String ((Ascii (false, true, true, true, false, false,
    true, false)), (String ((Ascii (true, true, true, false, false, false,
    true, false)), (String ((Ascii (false, false, true, false, true, false,
    true, false)), (String ((Ascii (false, false, false, true, false, false,
    true, false)),
    EmptyString)))))))))))))))))))))))))))))))))))))))))))))))))))))), (Zpos
    (XO (XI XH)))) :: (((String ((Ascii (false, false, true, false, false,
    false, true, false)), (String ((Ascii (true, false, false, false, false,
    false, true, false)), (String ((Ascii (false, false, true, false, true,
    false, true, false)), (String ((Ascii (true, false, false, false, false,
    false, true, false)), (String ((Ascii (true, true, true, true, true,
    false, true, false)), (String ((Ascii (true, true, false, false, false,
    false, true, false)), (String ((Ascii (true, true, true, true, false,
    false, true, false)), (String ((Ascii (false, true, false, false, true,
    false, true, false)), (String ((Ascii (false, true, false, false, true,
    false, true, false)), (String ((Ascii (true, false, true, false, true,
    false, true, false)), (String ((Ascii (false, false, false, false, true,
    false, true, false)), (String ((Ascii (false, false, true, false, true,
    false, true, false)), (String ((Ascii (true, false, true, false, false,
    false, true, false)), (String ((Ascii (false, false, true, false, false,
    false, true, false)), EmptyString)))))))))))))))))))))))))))), (Zpos (XI
    (XI XH)))) :: (((String ((Ascii (false, true, true, true, false, false,
    true, false)), (String ((Ascii (true, true, true, true, false, false,
    true, false)), (String ((Ascii (true, true, true, true, true, false,
    true, false)), (String ((Ascii (false, false, true, false, false, false,
    true, false)), (String ((Ascii (true, false, false, false, false, false,
    true, false)), (String ((Ascii (false, false, true, false, true, false,
    true, false)), (String ((Ascii (true, false, false, false, false, false,
    true, false)), (String ((Ascii (true, true, true, true, true, false,
    true, false)), (String ((Ascii (true, true, false, false, true, false,
    true, false)), (String ((Ascii (false, false, true, false, true, false,
    true, false)), (String ((Ascii (true, true, true, true, false, false,
    true, false)), (String ((Ascii (false, true, false, false, true, false,
    true, false)), (String ((Ascii (true, false, true, false, false, false,
    true, false)), (String ((Ascii (false, false, true, false, false, false,
    true, false)), EmptyString)))))))))))))))))))))))))))), (Zpos (XO (XO (XO
    XH))))) :: (((String ((Ascii (true, false, true, false, true, false,
    true, false)), (String ((Ascii (false, true, true, true, false, false,
    true, false)), (String ((Ascii (true, false, false, false, false, false,
    true, false)), (String ((Ascii (false, true, true, false, true, false,
    true, false)), (String ((Ascii (true, false, false, false, false, false,
    true, false)), (String ((Ascii (true, false, false, true, false, false,
    true, false)), (String ((Ascii (false, false, true, true, false, false,
    true, false)), (String ((Ascii (true, false, false, false, false, false,
    true, false)), (String ((Ascii (false, true, false, false, false, false,
    true, false)), (String ((Ascii (false, false, true, true, false, false,
    true, false)), (String ((Ascii (true, false, true, false, false, false,
    true, false)), EmptyString)))))))))))))))))))))), (Zpos (XI (XO (XO
    XH))))) :: (((String ((Ascii (true, false, true, false, true, false,
    true, false)), (String ((Ascii (false, true, true, true, false, false,
    true, false)), (String ((Ascii (true, true, false, false, true, false,
    true, false)), (String ((Ascii (true, false, true, false, true, false,
    true, false)), (String ((Ascii (false, false, false, false, true, false,
    true, false)), (String ((Ascii (false, false, false, false, true, false,
    true, false)), (String ((Ascii (true, true, true, true, false, false,
    true, false)), (String ((Ascii (false, true, false, false, true, false,
    true, false)), (String ((Ascii (false, false, true, false, true, false,
    true, false)), (String ((Ascii (true, false, true, false, false, false,
    true, false)), (String ((Ascii (false, false, true, false, false, false,
    true, false)), (String ((Ascii (true, true, true, true, true, false,
    true, false)), (String ((Ascii (true, false, false, true, false, false,
    true, false)), (String ((Ascii (false, true, true, true, false, false,
    true, false)), (String ((Ascii (false, false, true, false, true, false,
    true, false)), (String ((Ascii (true, false, true, false, false, false,
    true, false)), (String ((Ascii (false, true, false, false, true, false,
    true, false)), (String ((Ascii (false, true, true, false, false, false,
    true, false)), (String ((Ascii (true, false, false, false, false, false,
    true, false)), (String ((Ascii (true, true, false, false, false, false,
    true, false)), (String ((Ascii (true, false, true, false, false, false,
    true, false)), EmptyString)))))))))))))))))))))))))))))))))))))))))),
    (Zpos (XO (XI (XO XH))))) :: [])))))))))))) :: (((String ((Ascii (false,
    true, true, false, false, true, true, false)), (String ((Ascii (true,
    false, true, false, true, true, true, false)), (String ((Ascii (true,
    true, false, false, true, true, true, false)), (String ((Ascii (true,
    false, false, true, false, true, true, false)), (String ((Ascii (true,
    true, true, true, false, true, true, false)), (String ((Ascii (false,
    true, true, true, false, true, true, false)), (String ((Ascii (true,
    true, true, true, true, false, true, false)), (String ((Ascii (true,
    false, true, false, false, true, true, false)), (String ((Ascii (false,
    true, true, true, false, true, true, false)), (String ((Ascii (true,
    true, true, false, false, true, true, false)), (String ((Ascii (true,
    false, false, true, false, true, true, false)), (String ((Ascii (false,
    true, true, true, false, true, true, false)), (String ((Ascii (true,
    false, true, false, false, true, true, false)), (String ((Ascii (true,
    true, true, true, true, false, true, false)), (String ((Ascii (true,
    true, false, false, false, true, true, false)), (String ((Ascii (false,
    false, true, true, false, true, true, false)), (String ((Ascii (true,
    false, false, true, false, true, true, false)), (String ((Ascii (true,
    false, true, false, false, true, true, false)), (String ((Ascii (false,
    true, true, true, false, true, true, false)), (String ((Ascii (false,
    false, true, false, true, true, true, false)), (String ((Ascii (false,
    true, true, true, false, true, false, false)), (String ((Ascii (true,
    false, true, true, false, true, true, false)), (String ((Ascii (true,
    false, true, false, false, true, true, false)), (String ((Ascii (true,
    true, false, false, true, true, true, false)), (String ((Ascii (true,
    true, false, false, true, true, true, false)), (String ((Ascii (true,
    false, false, false, false, true, true, false)), (String ((Ascii (true,
    true, true, false, false, true, true, false)), (String ((Ascii (true,
    false, true, false, false, true, true, false)), (String ((Ascii (true,
    true, false, false, true, true, true, false)), (String ((Ascii (false,
    true, true, true, false, true, false, false)), (String ((Ascii (false,
    false, true, false, false, true, true, false)), (String ((Ascii (true,
    false, true, false, false, true, true, false)), (String ((Ascii (false,
    true, true, false, false, true, true, false)), (String ((Ascii (true,
    true, false, false, true, true, true, false)), (String ((Ascii (false,
    true, false, true, true, true, false, false)), (String ((Ascii (true,
    true, false, false, true, false, true, false)), (String ((Ascii (true,
    true, true, true, false, true, true, false)), (String ((Ascii (false,
    false, true, true, false, true, true, false)), (String ((Ascii (true,
    false, true, false, true, true, true, false)), (String ((Ascii (false,
    false, true, false, true, true, true, false)), (String ((Ascii (true,
    false, false, true, false, true, true, false)), (String ((Ascii (true,
    true, true, true, false, true, true, false)), (String ((Ascii (false,
    true, true, true, false, true, true, false)), (String ((Ascii (false,
    false, true, false, true, false, true, false)), (String ((Ascii (true,
    false, false, true, true, true, true, false)), (String ((Ascii (false,
    false, false, false, true, true, true, false)), (String ((Ascii (true,
    false, true, false, false, true, true, false)),
    EmptyString)))))))))))))))))))))))))))))))))))))))))))))))))))))))))))))))))))))))))))))))))))))))))))))),
    (((String ((Ascii (true, false, false, true, false, false, true, false)),
    (String ((Ascii (false, true, true, true, false, true, true, false)),
    (String ((Ascii (false, true, true, false, true, true, true, false)),
    (String ((Ascii (true, false, false, false, false, true, true, false)),
    (String ((Ascii (false, false, true, true, false, true, true, false)),
    (String ((Ascii (true, false, false, true, false, true, true, false)),
    (String ((Ascii (false, false, true, false, false, true, true, false)),
    EmptyString)))))))))))))), Z0) :: (((String ((Ascii (true, false, false,
    false, false, false, true, false)), (String ((Ascii (true, false, true,
    false, true, true, true, false)), (String ((Ascii (false, false, true,
    false, true, true, true, false)), (String ((Ascii (true, true, true,
    true, false, true, true, false)), (String ((Ascii (false, true, true,
    true, false, true, true, false)), (String ((Ascii (true, true, true,
    true, false, true, true, false)), (String ((Ascii (true, false, true,
    true, false, true, true, false)), (String ((Ascii (true, true, true,
    true, false, true, true, false)), (String ((Ascii (true, false, true,
    false, true, true, true, false)), (String ((Ascii (true, true, false,
    false, true, true, true, false)), (String ((Ascii (true, true, true,
    false, false, false, true, false)), (String ((Ascii (false, false, false,
    false, true, false, true, false)), (String ((Ascii (true, true, false,
    false, true, false, true, false)), EmptyString)))))))))))))))))))))))))),
    (Zpos XH)) :: (((String ((Ascii (false, false, true, false, false, false,
    true, false)), (String ((Ascii (true, true, true, false, false, false,
    true, false)), (String ((Ascii (false, false, false, false, true, false,
    true, false)), (String ((Ascii (true, true, false, false, true, false,
    true, false)), EmptyString)))))))), (Zpos (XO XH))) :: (((String ((Ascii
    (false, true, false, false, true, false, true, false)), (String ((Ascii
    (false, false, true, false, true, false, true, false)), (String ((Ascii
    (true, true, false, true, false, false, true, false)), (String ((Ascii
    (false, true, true, false, false, false, true, false)), (String ((Ascii
    (true, false, false, true, false, true, true, false)), (String ((Ascii
    (false, false, false, true, true, true, true, false)), (String ((Ascii
    (true, false, true, false, false, true, true, false)), (String ((Ascii
    (false, false, true, false, false, true, true, false)),
    EmptyString)))))))))))))))), (Zpos (XO (XO XH)))) :: (((String ((Ascii
    (false, true, false, false, true, false, true, false)), (String ((Ascii
    (false, false, true, false, true, false, true, false)), (String ((Ascii
    (true, true, false, true, false, false, true, false)), (String ((Ascii
    (false, true, true, false, false, false, true, false)), (String ((Ascii
    (false, false, true, true, false, true, true, false)), (String ((Ascii
    (true, true, true, true, false, true, true, false)), (String ((Ascii
    (true, false, false, false, false, true, true, false)), (String ((Ascii
    (false, false, true, false, true, true, true, false)),
    EmptyString)))))))))))))))), (Zpos (XI (XO XH)))) :: (((String ((Ascii
    (true, false, false, true, false, false, true, false)), (String ((Ascii
    (false, true, true, true, false, true, true, false)), (String ((Ascii
    (false, false, true, false, true, true, true, false)), (String ((Ascii
    (true, false, true, false, false, true, true, false)), (String ((Ascii
    (true, true, true, false, false, true, true, false)), (String ((Ascii
    (false, true, false, false, true, true, true, false)), (String ((Ascii
    (true, false, false, false, false, true, true, false)), (String ((Ascii
    (false, false, true, false, true, true, true, false)), (String ((Ascii
    (true, false, true, false, false, true, true, false)),
    EmptyString)))))))))))))))))), (Zpos (XO (XI XH)))) :: (((String ((Ascii
    (false, true, true, false, true, false, true, false)), (String ((Ascii
    (true, false, false, true, false, true, true, false)), (String ((Ascii
    (true, true, false, false, true, true, true, false)), (String ((Ascii
    (true, false, true, false, true, true, true, false)), (String ((Ascii
    (true, false, false, false, false, true, true, false)), (String ((Ascii
    (false, false, true, true, false, true, true, false)),
    EmptyString)))))))))))), (Zpos (XI (XO (XO XH))))) :: (((String ((Ascii
    (false, false, false, false, true, false, true, false)), (String ((Ascii
    (false, false, false, false, true, false, true, false)), (String ((Ascii
    (false, false, false, false, true, false, true, false)),
    EmptyString)))))), (Zpos (XO (XI (XO XH))))) :: []))))))))) :: (((String
    ((Ascii (false, true, true, false, false, true, true, false)), (String
    ((Ascii (true, false, true, false, true, true, true, false)), (String
    ((Ascii (true, true, false, false, true, true, true, false)), (String
    ((Ascii (true, false, false, true, false, true, true, false)), (String
    ((Ascii (true, true, true, true, false, true, true, false)), (String
    ((Ascii (false, true, true, true, false, true, true, false)), (String
    ((Ascii (true, true, true, true, true, false, true, false)), (String
    ((Ascii (true, false, true, false, false, true, true, false)), (String
    ((Ascii (false, true, true, true, false, true, true, false)), (String
    ((Ascii (true, true, true, false, false, true, true, false)), (String
    ((Ascii (true, false, false, true, false, true, true, false)), (String
    ((Ascii (false, true, true, true, false, true, true, false)), (String
    ((Ascii (true, false, true, false, false, true, true, false)), (String
    ((Ascii (true, true, true, true, true, false, true, false)), (String
    ((Ascii (true, true, false, false, false, true, true, false)), (String
    ((Ascii (false, false, true, true, false, true, true, false)), (String
    ((Ascii (true, false, false, true, false, true, true, false)), (String
    ((Ascii (true, false, true, false, false, true, true, false)), (String
    ((Ascii (false, true, true, true, false, true, true, false)), (String
    ((Ascii (false, false, true, false, true, true, true, false)), (String
    ((Ascii (false, true, true, true, false, true, false, false)), (String
    ((Ascii (true, false, true, true, false, true, true, false)), (String
    ((Ascii (true, false, true, false, false, true, true, false)), (String
    ((Ascii (true, true, false, false, true, true, true, false)), (String
    ((Ascii (true, true, false, false, true, true, true, false)), (String
    ((Ascii (true, false, false, false, false, true, true, false)), (String
    ((Ascii (true, true, true, false, false, true, true, false)), (String
    ((Ascii (true, false, true, false, false, true, true, false)), (String
    ((Ascii (true, true, false, false, true, true, true, false)), (String
    ((Ascii (false, true, true, true, false, true, false, false)), (String
    ((Ascii (false, false, true, false, false, true, true, false)), (String
    ((Ascii (true, false, true, false, false, true, true, false)), (String
    ((Ascii (false, true, true, false, true, true, true, false)), (String
    ((Ascii (true, false, false, true, false, true, true, false)), (String
    ((Ascii (true, true, false, false, false, true, true, false)), (String
    ((Ascii (true, false, true, false, false, true, true, false)), (String
    ((Ascii (false, true, false, true, true, true, false, false)), (String
    ((Ascii (false, false, true, false, false, false, true, false)), (String
    ((Ascii (true, false, true, false, false, true, true, false)), (String
    ((Ascii (false, true, true, false, true, true, true, false)), (String
    ((Ascii (true, false, false, true, false, true, true, false)), (String
    ((Ascii (true, true, false, false, false, true, true, false)), (String
    ((Ascii (true, false, true, false, false, true, true, false)), (String
    ((Ascii (false, false, true, false, true, false, true, false)), (String
    ((Ascii (true, false, false, true, true, true, true, false)), (String
    ((Ascii (false, false, false, false, true, true, true, false)), (String
    ((Ascii (true, false, true, false, false, true, true, false)),
    EmptyString)))))))))))))))))))))))))))))))))))))))))))))))))))))))))))))))))))))))))))))))))))))))))))))),
    (((String ((Ascii (true, false, true, false, true, false, true, false)),
    (String ((Ascii (false, true, true, true, false, false, true, false)),
    (String ((Ascii (true, true, false, true, false, false, true, false)),
    (String ((Ascii (false, true, true, true, false, false, true, false)),
    (String ((Ascii (true, true, true, true, false, false, true, false)),
    (String ((Ascii (true, true, true, false, true, false, true, false)),
    (String ((Ascii (false, true, true, true, false, false, true, false)),
    EmptyString)))))))))))))), Z0) :: (((String ((Ascii (true, false, false,
    false, false, false, true, false)), (String ((Ascii (false, false, true,
    false, true, false, true, false)), (String ((Ascii (false, false, true,
    true, false, false, true, false)), (String ((Ascii (true, false, false,
    false, false, false, true, false)), (String ((Ascii (true, true, false,
    false, true, false, true, false)), EmptyString)))))))))), (Zpos
    XH)) :: (((String ((Ascii (false, false, true, true, false, false, true,
    false)), (String ((Ascii (true, true, true, false, false, false, true,
    false)), (String ((Ascii (false, true, true, false, true, true, false,
    false)), (String ((Ascii (true, false, false, true, true, true, false,
    false)), (String ((Ascii (false, false, true, false, true, false, true,
    false)), (String ((Ascii (true, true, true, true, true, false, true,
    false)), (String ((Ascii (true, false, false, false, false, false, true,
    false)), (String ((Ascii (true, false, true, true, false, false, true,
    false)), EmptyString)))))))))))))))), (Zpos (XO XH))) :: (((String
    ((Ascii (false, false, true, true, false, false, true, false)), (String
    ((Ascii (true, true, true, false, false, false, true, false)), (String
    ((Ascii (false, true, true, false, true, true, false, false)), (String
    ((Ascii (true, false, false, true, true, true, false, false)), (String
    ((Ascii (false, false, true, false, true, false, true, false)), (String
    ((Ascii (true, true, true, true, true, false, true, false)), (String
    ((Ascii (true, false, false, false, false, false, true, false)), (String
    ((Ascii (false, false, false, false, true, false, true, false)),
    EmptyString)))))))))))))))), (Zpos (XI XH))) :: (((String ((Ascii (false,
    false, true, true, false, false, true, false)), (String ((Ascii (true,
    true, true, false, false, false, true, false)), (String ((Ascii (false,
    true, true, false, true, true, false, false)), (String ((Ascii (true,
    false, false, true, true, true, false, false)), (String ((Ascii (false,
    false, true, false, true, false, true, false)), (String ((Ascii (true,
    true, true, true, true, false, true, false)), (String ((Ascii (true,
    false, false, false, false, false, true, false)), (String ((Ascii (false,
    false, false, true, false, false, true, false)),
    EmptyString)))))))))))))))), (Zpos (XO (XO XH)))) :: (((String ((Ascii
    (false, true, true, true, false, false, true, false)), (String ((Ascii
    (true, false, true, false, false, false, true, false)), (String ((Ascii
    (false, false, false, true, true, false, true, false)), (String ((Ascii
    (true, false, false, false, false, false, true, false)), (String ((Ascii
    (false, true, false, false, true, false, true, false)), (String ((Ascii
    (true, true, true, true, true, false, true, false)), (String ((Ascii
    (false, true, false, false, false, false, true, false)), (String ((Ascii
    (true, false, true, false, false, false, true, false)), (String ((Ascii
    (true, false, false, false, false, false, true, false)), (String ((Ascii
    (true, false, true, true, false, false, true, false)), (String ((Ascii
    (false, true, false, false, true, true, false, false)), (String ((Ascii
    (true, true, false, true, false, false, true, false)),
    EmptyString)))))))))))))))))))))))), (Zpos (XI (XO XH)))) :: (((String
    ((Ascii (true, true, false, false, true, false, true, false)), (String
    ((Ascii (true, true, false, false, true, false, true, false)), (String
    ((Ascii (false, true, false, false, true, false, true, false)), (String
    ((Ascii (true, true, true, true, true, false, true, false)), (String
    ((Ascii (false, false, true, true, false, false, true, false)), (String
    ((Ascii (true, true, true, false, false, false, true, false)), (String
    ((Ascii (false, true, true, false, true, true, false, false)), (String
    ((Ascii (true, false, false, true, true, true, false, false)), (String
    ((Ascii (false, false, true, false, true, false, true, false)),
    EmptyString)))))))))))))))))), (Zpos (XO (XI XH)))) :: (((String ((Ascii
    (true, true, false, false, true, false, true, false)), (String ((Ascii
    (true, true, false, false, true, false, true, false)), (String ((Ascii
    (false, true, false, false, true, false, true, false)), (String ((Ascii
    (true, true, true, true, true, false, true, false)), (String ((Ascii
    (false, false, true, false, false, false, true, false)), (String ((Ascii
    (true, false, true, false, false, false, true, false)), (String ((Ascii
    (true, true, false, false, true, false, true, false)), (String ((Ascii
    (true, true, false, true, false, false, true, false)), (String ((Ascii
    (false, false, true, false, true, false, true, false)), (String ((Ascii
    (true, true, true, true, false, false, true, false)), (String ((Ascii
    (false, false, false, false, true, false, true, false)),
    EmptyString)))))))))))))))))))))), (Zpos (XI (XI
    XH)))) :: []))))))))) :: (((String ((Ascii (false, true, true, false,
    false, true, true, false)), (String ((Ascii (true, false, true, false,
    true, true, true, false)), (String ((Ascii (true, true, false, false,
    true, true, true, false)), (String ((Ascii (true, false, false, true,
    false, true, true, false)), (String ((Ascii (true, true, true, true,
    false, true, true, false)), (String ((Ascii (false, true, true, true,
    false, true, true, false)), (String ((Ascii (true, true, true, true,
    true, false, true, false)), (String ((Ascii (true, false, true, false,
    false, true, true, false)), (String ((Ascii (false, true, true, true,
    false, true, true, false)), (String ((Ascii (true, true, true, false,
    false, true, true, false)), (String ((Ascii (true, false, false, true,
    false, true, true, false)), (String ((Ascii (false, true, true, true,
    false, true, true, false)), (String ((Ascii (true, false, true, false,
    false, true, true, false)), (String ((Ascii (true, true, true, true,
    true, false, true, false)), (String ((Ascii (true, true, false, false,
    false, true, true, false)), (String ((Ascii (false, false, true, true,
    false, true, true, false)), (String ((Ascii (true, false, false, true,
    false, true, true, false)), (String ((Ascii (true, false, true, false,
    false, true, true, false)), (String ((Ascii (false, true, true, true,
    false, true, true, false)), (String ((Ascii (false, false, true, false,
    true, true, true, false)), (String ((Ascii (false, true, true, true,
    false, true, false, false)), (String ((Ascii (true, false, true, true,
    false, true, true, false)), (String ((Ascii (true, false, true, false,
    false, true, true, false)), (String ((Ascii (true, true, false, false,
    true, true, true, false)), (String ((Ascii (true, true, false, false,
    true, true, true, false)), (String ((Ascii (true, false, false, false,
    false, true, true, false)), (String ((Ascii (true, true, true, false,
    false, true, true, false)), (String ((Ascii (true, false, true, false,
    false, true, true, false)), (String ((Ascii (true, true, false, false,
    true, true, true, false)), (String ((Ascii (false, true, true, true,
    false, true, false, false)), (String ((Ascii (false, false, true, false,
    false, true, true, false)), (String ((Ascii (true, false, true, false,
    false, true, true, false)), (String ((Ascii (false, true, true, false,
    true, true, true, false)), (String ((Ascii (true, false, false, true,
    false, true, true, false)), (String ((Ascii (true, true, false, false,
    false, true, true, false)), (String ((Ascii (true, false, true, false,
    false, true, true, false)), (String ((Ascii (false, true, false, true,
    true, true, false, false)), (String ((Ascii (true, false, true, false,
    false, false, true, false)), (String ((Ascii (false, true, true, false,
    true, true, true, false)), (String ((Ascii (true, false, true, false,
    false, true, true, false)), (String ((Ascii (false, true, true, true,
    false, true, true, false)), (String ((Ascii (false, false, true, false,
    true, true, true, false)), (String ((Ascii (false, false, true, false,
    true, false, true, false)), (String ((Ascii (true, false, false, true,
    true, true, true, false)), (String ((Ascii (false, false, false, false,
    true, true, true, false)), (String ((Ascii (true, false, true, false,
    false, true, true, false)),
    EmptyString)))))))))))))))))))))))))))))))))))))))))))))))))))))))))))))))))))))))))))))))))))))))))))),
    (((String ((Ascii (false, false, true, true, false, false, true, false)),
    (String ((Ascii (true, true, true, true, false, false, true, false)),
    (String ((Ascii (true, true, true, false, false, false, true, false)),
    EmptyString)))))), Z0) :: (((String ((Ascii (false, true, false, false,
    true, false, true, false)), (String ((Ascii (true, false, true, false,
    false, false, true, false)), (String ((Ascii (true, true, false, false,
    true, false, true, false)), (String ((Ascii (true, false, true, false,
    false, false, true, false)), (String ((Ascii (false, false, true, false,
    true, false, true, false)), EmptyString)))))))))), (Zpos
    XH)) :: (((String ((Ascii (true, true, false, false, false, false, true,
    false)), (String ((Ascii (true, true, true, true, false, false, true,
    false)), (String ((Ascii (false, true, true, true, false, false, true,
    false)), (String ((Ascii (false, true, true, false, false, false, true,
    false)), (String ((Ascii (true, false, false, true, false, false, true,
    false)), (String ((Ascii (true, true, true, false, false, false, true,
    false)), (String ((Ascii (true, true, true, true, true, false, true,
    false)), (String ((Ascii (true, true, false, false, false, false, true,
    false)), (String ((Ascii (false, false, false, true, false, false, true,
    false)), (String ((Ascii (true, false, false, false, false, false, true,
    false)), (String ((Ascii (false, true, true, true, false, false, true,
    false)), (String ((Ascii (true, true, true, false, false, false, true,
    false)), (String ((Ascii (true, false, true, false, false, false, true,
    false)), EmptyString)))))))))))))))))))))))))), (Zpos (XO
    XH))) :: (((String ((Ascii (true, true, false, false, false, false, true,
    false)), (String ((Ascii (true, true, true, true, false, false, true,
    false)), (String ((Ascii (true, false, true, true, false, false, true,
    false)), (String ((Ascii (true, false, true, true, false, false, true,
    false)), (String ((Ascii (true, false, false, false, false, false, true,
    false)), (String ((Ascii (false, true, true, true, false, false, true,
    false)), (String ((Ascii (false, false, true, false, false, false, true,
    false)), EmptyString)))))))))))))), (Zpos (XI XH))) :: (((String ((Ascii
    (true, true, false, false, false, false, true, false)), (String ((Ascii
    (true, true, true, true, false, false, true, false)), (String ((Ascii
    (true, false, true, true, false, false, true, false)), (String ((Ascii
    (true, false, true, true, false, false, true, false)), (String ((Ascii
    (true, false, false, false, false, false, true, false)), (String ((Ascii
    (false, true, true, true, false, false, true, false)), (String ((Ascii
    (false, false, true, false, false, false, true, false)), (String ((Ascii
    (true, true, true, true, true, false, true, false)), (String ((Ascii
    (false, true, false, false, true, false, true, false)), (String ((Ascii
    (true, false, true, false, false, false, true, false)), (String ((Ascii
    (true, true, false, false, true, false, true, false)), (String ((Ascii
    (false, false, false, false, true, false, true, false)), (String ((Ascii
    (true, true, true, true, false, false, true, false)), (String ((Ascii
    (false, true, true, true, false, false, true, false)), (String ((Ascii
    (true, true, false, false, true, false, true, false)), (String ((Ascii
    (true, false, true, false, false, false, true, false)),
    EmptyString)))))))))))))))))))))))))))))))), (Zpos (XO (XO
    XH)))) :: [])))))) :: (((String ((Ascii (false, true, true, false, false,
    true, true, false)), (String ((Ascii (true, false, true, false, true,
    true, true, false)), (String ((Ascii (true, true, false, false, true,
    true, true, false)), (String ((Ascii (true, false, false, true, false,
    true, true, false)), (String ((Ascii (true, true, true, true, false,
    true, true, false)), (String ((Ascii (false, true, true, true, false,
    true, true, false)), (String ((Ascii (true, true, true, true, true,
    false, true, false)), (String ((Ascii (true, false, true, false, false,
    true, true, false)), (String ((Ascii (false, true, true, true, false,
    true, true, false)), (String ((Ascii (true, true, true, false, false,
    true, true, false)), (String ((Ascii (true, false, false, true, false,
    true, true, false)), (String ((Ascii (false, true, true, true, false,
    true, true, false)), (String ((Ascii (true, false, true, false, false,
    true, true, false)), (String ((Ascii (true, true, true, true, true,
    false, true, false)), (String ((Ascii (true, true, false, false, false,
    true, true, false)), (String ((Ascii (false, false, true, true, false,
    true, true, false)), (String ((Ascii (true, false, false, true, false,
    true, true, false)), (String ((Ascii (true, false, true, false, false,
    true, true, false)), (String ((Ascii (false, true, true, true, false,
    true, true, false)), (String ((Ascii (false, false, true, false, true,
    true, true, false)), (String ((Ascii (false, true, true, true, false,
    true, false, false)), (String ((Ascii (true, false, true, true, false,
    true, true, false)), (String ((Ascii (true, false, true, false, false,
    true, true, false)), (String ((Ascii (true, true, false, false, true,
    true, true, false)), (String ((Ascii (true, true, false, false, true,
    true, true, false)), (String ((Ascii (true, false, false, false, false,
    true, true, false)), (String ((Ascii (true, true, true, false, false,
    true, true, false)), (String ((Ascii (true, false, true, false, false,
    true, true, false)), (String ((Ascii (true, true, false, false, true,
    true, true, false)), (String ((Ascii (false, true, true, true, false,
    true, false, false)), (String ((Ascii (false, true, true, false, false,
    true, true, false)), (String ((Ascii (true, false, false, false, false,
    true, true, false)), (String ((Ascii (true, false, true, false, true,
    true, true, false)), (String ((Ascii (false, false, true, true, false,
    true, true, false)), (String ((Ascii (false, false, true, false, true,
    true, true, false)), (String ((Ascii (true, true, true, true, true,
    false, true, false)), (String ((Ascii (true, true, false, false, false,
    true, true, false)), (String ((Ascii (true, true, true, true, false,
    true, true, false)), (String ((Ascii (false, true, true, true, false,
    true, true, false)), (String ((Ascii (false, false, true, false, true,
    true, true, false)), (String ((Ascii (false, true, false, false, true,
    true, true, false)), (String ((Ascii (true, true, true, true, false,
    true, true, false)), (String ((Ascii (false, false, true, true, false,
    true, true, false)), (String ((Ascii (false, true, false, true, true,
    true, false, false)), (String ((Ascii (true, true, false, false, false,
    false, true, false)), (String ((Ascii (true, true, true, true, false,
    true, true, false)), (String ((Ascii (true, true, false, false, false,
    false, true, false)), (String ((Ascii (true, true, true, true, false,
    true, true, false)), (String ((Ascii (true, false, true, true, false,
    true, true, false)), (String ((Ascii (false, false, true, false, true,
    false, true, false)), (String ((Ascii (true, false, false, true, true,
    true, true, false)), (String ((Ascii (false, false, false, false, true,
    true, true, false)), (String ((Ascii (true, false, true, false, false,
    true, true, false)),
    EmptyString)))))))))))))))))))))))))))))))))))))))))))))))))))))))))))))))))))))))))))))))))))))))))))))))))))))))))),
    (((String ((Ascii (false, true, true, true, false, false, true, false)),
    (String ((Ascii (true, true, true, true, false, false, true, false)),
    (String ((Ascii (false, true, true, true, false, false, true, false)),
    (String ((Ascii (true, false, true, false, false, false, true, false)),
    EmptyString)))))))), Z0) :: (((String ((Ascii (true, false, false, false,
    false, false, true, false)), (String ((Ascii (true, true, false, false,
    false, false, true, false)), (String ((Ascii (true, true, false, false,
    false, false, true, false)), (String ((Ascii (true, false, true, false,
    false, false, true, false)), (String ((Ascii (false, false, true, true,
    false, false, true, false)), (String ((Ascii (true, false, true, false,
    false, false, true, false)), (String ((Ascii (false, true, false, false,
    true, false, true, false)), (String ((Ascii (true, false, false, false,
    false, false, true, false)), (String ((Ascii (false, false, true, false,
    true, false, true, false)), (String ((Ascii (true, false, false, true,
    false, false, true, false)), (String ((Ascii (true, true, true, true,
    false, false, true, false)), (String ((Ascii (false, true, true, true,
    false, false, true, false)), EmptyString)))))))))))))))))))))))), (Zpos
    XH)) :: (((String ((Ascii (true, true, false, false, true, false, true,
    false)), (String ((Ascii (false, false, false, false, true, false, true,
    false)), (String ((Ascii (true, false, true, false, false, false, true,
    false)), (String ((Ascii (true, false, true, false, false, false, true,
    false)), (String ((Ascii (false, false, true, false, false, false, true,
    false)), EmptyString)))))))))), (Zpos (XO XH))) :: (((String ((Ascii
    (true, false, false, false, false, false, true, false)), (String ((Ascii
    (false, false, true, true, false, false, true, false)), (String ((Ascii
    (false, false, true, false, true, false, true, false)), (String ((Ascii
    (true, false, false, true, false, false, true, false)), (String ((Ascii
    (false, false, true, false, true, false, true, false)), (String ((Ascii
    (true, false, true, false, true, false, true, false)), (String ((Ascii
    (false, false, true, false, false, false, true, false)), (String ((Ascii
    (true, false, true, false, false, false, true, false)),
    EmptyString)))))))))))))))), (Zpos (XI XH))) :: []))))) :: (((String
    ((Ascii (false, true, true, false, false, true, true, false)), (String
    ((Ascii (true, false, true, false, true, true, true, false)), (String
    ((Ascii (true, true, false, false, true, true, true, false)), (String
    ((Ascii (true, false, false, true, false, true, true, false)), (String
    ((Ascii (true, true, true, true, false, true, true, false)), (String
    ((Ascii (false, true, true, true, false, true, true, false)), (String
    ((Ascii (true, true, true, true, true, false, true, false)), (String
    ((Ascii (true, false, true, false, false, true, true, false)), (String
    ((Ascii (false, true, true, true, false, true, true, false)), (String
    ((Ascii (true, true, true, false, false, true, true, false)), (String
    ((Ascii (true, false, false, true, false, true, true, false)), (String
    ((Ascii (false, true, true, true, false, true, true, false)), (String
    ((Ascii (true, false, true, false, false, true, true, false)), (String
    ((Ascii (true, true, true, true, true, false, true, false)), (String
    ((Ascii (true, true, false, false, false, true, true, false)), (String
    ((Ascii (false, false, true, true, false, true, true, false)), (String
    ((Ascii (true, false, false, true, false, true, true, false)), (String
    ((Ascii (true, false, true, false, false, true, true, false)), (String
    ((Ascii (false, true, true, true, false, true, true, false)), (String
    ((Ascii (false, false, true, false, true, true, true, false)), (String
    ((Ascii (false, true, true, true, false, true, false, false)), (String
    ((Ascii (true, false, true, true, false, true, true, false)), (String
    ((Ascii (true, false, true, false, false, true, true, false)), (String
    ((Ascii (true, true, false, false, true, true, true, false)), (String
    ((Ascii (true, true, false, false, true, true, true, false)), (String
    ((Ascii (true, false, false, false, false, true, true, false)), (String
    ((Ascii (true, true, true, false, false, true, true, false)), (String
    ((Ascii (true, false, true, false, false, true, true, false)), (String
    ((Ascii (true, true, false, false, true, true, true, false)), (String
    ((Ascii (false, true, true, true, false, true, false, false)), (String
    ((Ascii (false, true, true, false, false, true, true, false)), (String
    ((Ascii (true, false, false, false, false, true, true, false)), (String
    ((Ascii (true, false, true, false, true, true, true, false)), (String
    ((Ascii (false, false, true, true, false, true, true, false)), (String
    ((Ascii (false, false, true, false, true, true, true, false)), (String
    ((Ascii (true, true, true, true, true, false, true, false)), (String
    ((Ascii (true, true, false, false, false, true, true, false)), (String
    ((Ascii (true, true, true, true, false, true, true, false)), (String
    ((Ascii (false, true, true, true, false, true, true, false)), (String
    ((Ascii (false, false, true, false, true, true, true, false)), (String
    ((Ascii (false, true, false, false, true, true, true, false)), (String
    ((Ascii (true, true, true, true, false, true, true, false)), (String
    ((Ascii (false, false, true, true, false, true, true, false)), (String
    ((Ascii (false, true, false, true, true, true, false, false)), (String
    ((Ascii (false, true, true, false, false, false, true, false)), (String
    ((Ascii (true, false, false, false, false, true, true, false)), (String
    ((Ascii (true, false, true, false, true, true, true, false)), (String
    ((Ascii (false, false, true, true, false, true, true, false)), (String
    ((Ascii (false, false, true, false, true, true, true, false)), (String
    ((Ascii (false, false, true, false, true, false, true, false)), (String
    ((Ascii (true, false, false, true, true, true, true, false)), (String
    ((Ascii (false, false, false, false, true, true, true, false)), (String
    ((Ascii (true, false, true, false, false, true, true, false)),
    EmptyString)))))))))))))))))))))))))))))))))))))))))))))))))))))))))))))))))))))))))))))))))))))))))))))))))))))))))),
    (((String ((Ascii (true, true, false, false, false, false, true, false)),
    (String ((Ascii (false, false, true, true, false, false, true, false)),
    (String ((Ascii (true, false, true, false, false, false, true, false)),
    (String ((Ascii (true, false, false, false, false, false, true, false)),
    (String ((Ascii (false, true, false, false, true, false, true, false)),
    (String ((Ascii (true, true, true, true, true, false, true, false)),
    (String ((Ascii (true, false, false, false, false, false, true, false)),
    (String ((Ascii (false, false, true, true, false, false, true, false)),
    (String ((Ascii (false, false, true, true, false, false, true, false)),
    EmptyString)))))))))))))))))), Z0) :: (((String ((Ascii (true, true,
    false, false, false, false, true, false)), (String ((Ascii (false, true,
    false, false, true, false, true, false)), (String ((Ascii (true, false,
    false, false, false, false, true, false)), (String ((Ascii (true, true,
    false, false, true, false, true, false)), (String ((Ascii (false, false,
    false, true, false, false, true, false)), EmptyString)))))))))), (Zpos
    XH)) :: (((String ((Ascii (false, true, true, false, false, false, true,
    false)), (String ((Ascii (true, false, false, false, false, false, true,
    false)), (String ((Ascii (false, false, true, false, true, false, true,
    false)), (String ((Ascii (true, false, false, false, false, false, true,
    false)), (String ((Ascii (false, false, true, true, false, false, true,
    false)), (String ((Ascii (true, true, true, true, true, false, true,
    false)), (String ((Ascii (true, false, true, false, false, false, true,
    false)), (String ((Ascii (false, true, false, false, true, false, true,
    false)), (String ((Ascii (false, true, false, false, true, false, true,
    false)), (String ((Ascii (true, true, true, true, false, false, true,
    false)), (String ((Ascii (false, true, false, false, true, false, true,
    false)), EmptyString)))))))))))))))))))))), (Zpos (XO XH))) :: (((String
    ((Ascii (true, true, false, false, false, false, true, false)), (String
    ((Ascii (true, true, true, true, false, false, true, false)), (String
    ((Ascii (true, true, false, false, false, false, true, false)), (String
    ((Ascii (true, true, true, true, false, false, true, false)), (String
    ((Ascii (true, false, true, true, false, false, true, false)),
    EmptyString)))))))))), (Zpos (XI XH))) :: (((String ((Ascii (true, false,
    true, false, false, false, true, false)), (String ((Ascii (false, true,
    true, true, false, false, true, false)), (String ((Ascii (true, false,
    false, false, false, false, true, false)), (String ((Ascii (false, true,
    false, false, false, false, true, false)), (String ((Ascii (false, false,
    true, true, false, false, true, false)), (String ((Ascii (true, false,
    true, false, false, false, true, false)), (String ((Ascii (true, true,
    true, true, true, false, true, false)), (String ((Ascii (true, true,
    true, false, false, false, true, false)), (String ((Ascii (false, true,
    true, true, false, false, true, false)), (String ((Ascii (true, true,
    false, false, true, false, true, false)), (String ((Ascii (true, true,
    false, false, true, false, true, false)),
    EmptyString)))))))))))))))))))))), (Zpos (XO (XO XH)))) :: (((String
    ((Ascii (false, true, false, false, true, false, true, false)), (String
    ((Ascii (true, false, true, false, false, false, true, false)), (String
    ((Ascii (true, true, true, false, false, false, true, false)), (String
    ((Ascii (true, false, false, true, false, false, true, false)), (String
    ((Ascii (true, true, true, true, false, false, true, false)), (String
    ((Ascii (false, true, true, true, false, false, true, false)), (String
    ((Ascii (true, true, true, true, true, false, true, false)), (String
    ((Ascii (false, true, false, false, false, false, true, false)), (String
    ((Ascii (false, false, true, true, false, false, true, false)), (String
    ((Ascii (true, false, false, false, false, false, true, false)), (String
    ((Ascii (true, true, false, false, false, false, true, false)), (String
    ((Ascii (true, true, false, true, false, false, true, false)), (String
    ((Ascii (true, true, true, true, false, false, true, false)), (String
    ((Ascii (true, false, true, false, true, false, true, false)), (String
    ((Ascii (false, false, true, false, true, false, true, false)),
    EmptyString)))))))))))))))))))))))))))))), (Zpos (XI (XO
    XH)))) :: (((String ((Ascii (true, false, false, false, true, false,
    true, false)), (String ((Ascii (true, false, true, false, true, false,
    true, false)), (String ((Ascii (true, false, true, false, false, false,
    true, false)), (String ((Ascii (true, true, false, false, false, false,
    true, false)), (String ((Ascii (false, false, true, false, true, false,
    true, false)), (String ((Ascii (true, false, true, false, false, false,
    true, false)), (String ((Ascii (false, false, true, true, false, false,
    true, false)), (String ((Ascii (true, true, true, true, true, false,
    true, false)), (String ((Ascii (false, false, true, false, true, false,
    true, false)), (String ((Ascii (true, false, true, false, false, false,
    true, false)), (String ((Ascii (true, true, false, false, true, false,
    true, false)), (String ((Ascii (false, false, true, false, true, false,
    true, false)), EmptyString)))))))))))))))))))))))), (Zpos (XO (XI
    XH)))) :: (((String ((Ascii (true, false, false, true, false, false,
    true, false)), (String ((Ascii (false, true, true, true, false, false,
    true, false)), (String ((Ascii (false, false, true, false, true, false,
    true, false)), (String ((Ascii (true, false, true, false, false, false,
    true, false)), (String ((Ascii (true, true, true, false, false, false,
    true, false)), (String ((Ascii (false, true, false, false, true, false,
    true, false)), (String ((Ascii (true, false, false, true, false, false,
    true, false)), (String ((Ascii (false, false, true, false, true, false,
    true, false)), (String ((Ascii (true, false, false, true, true, false,
    true, false)), (String ((Ascii (true, true, true, true, true, false,
    true, false)), (String ((Ascii (true, true, false, false, true, false,
    true, false)), (String ((Ascii (false, false, true, false, true, false,
    true, false)), (String ((Ascii (true, false, false, false, false, false,
    true, false)), (String ((Ascii (false, false, true, false, true, false,
    true, false)), (String ((Ascii (true, false, true, false, true, false,
    true, false)), (String ((Ascii (true, true, false, false, true, false,
    true, false)), EmptyString)))))))))))))))))))))))))))))))), (Zpos (XI (XI
    XH)))) :: []))))))))) :: (((String ((Ascii (false, true, true, false,
    false, true, true, false)), (String ((Ascii (true, false, true, false,
    true, true, true, false)), (String ((Ascii (true, true, false, false,
    true, true, true, false)), (String ((Ascii (true, false, false, true,
    false, true, true, false)), (String ((Ascii (true, true, true, true,
    false, true, true, false)), (String ((Ascii (false, true, true, true,
    false, true, true, false)), (String ((Ascii (true, true, true, true,
    true, false, true, false)), (String ((Ascii (true, false, true, false,
    false, true, true, false)), (String ((Ascii (false, true, true, true,
    false, true, true, false)), (String ((Ascii (true, true, true, false,
    false, true, true, false)), (String ((Ascii (true, false, false, true,
    false, true, true, false)), (String ((Ascii (false, true, true, true,
    false, true, true, false)), (String ((Ascii (true, false, true, false,
    false, true, true, false)), (String ((Ascii (true, true, true, true,
    true, false, true, false)), (String ((Ascii (true, true, false, false,
    false, true, true, false)), (String ((Ascii (false, false, true, true,
    false, true, true, false)), (String ((Ascii (true, false, false, true,
    false, true, true, false)), (String ((Ascii (true, false, true, false,
    false, true, true, false)), (String ((Ascii (false, true, true, true,
    false, true, true, false)), (String ((Ascii (false, false, true, false,
    true, true, true, false)), (String ((Ascii (false, true, true, true,
    false, true, false, false)), (String ((Ascii (true, false, true, true,
    false, true, true, false)), (String ((Ascii (true, false, true, false,
    false, true, true, false)), (String ((Ascii (true, true, false, false,
    true, true, true, false)), (String ((Ascii (true, true, false, false,
    true, true, true, false)), (String ((Ascii (true, false, false, false,
    false, true, true, false)), (String ((Ascii (true, true, true, false,
    false, true, true, false)), (String ((Ascii (true, false, true, false,
    false, true, true, false)), (String ((Ascii (true, true, false, false,
    true, true, true, false)), (String ((Ascii (false, true, true, true,
    false, true, false, false)), (String ((Ascii (true, false, true, true,
    false, true, true, false)), (String ((Ascii (true, false, true, false,
    false, true, true, false)), (String ((Ascii (true, false, false, false,
    false, true, true, false)), (String ((Ascii (true, true, false, false,
    true, true, true, false)), (String ((Ascii (true, false, true, false,
    true, true, true, false)), (String ((Ascii (false, true, false, false,
    true, true, true, false)), (String ((Ascii (true, false, true, false,
    false, true, true, false)), (String ((Ascii (true, false, true, true,
    false, true, true, false)), (String ((Ascii (true, false, true, false,
    false, true, true, false)), (String ((Ascii (false, true, true, true,
    false, true, true, false)), (String ((Ascii (false, false, true, false,
    true, true, true, false)), (String ((Ascii (true, true, true, true, true,
    false, true, false)), (String ((Ascii (false, false, true, false, false,
    true, true, false)), (String ((Ascii (true, false, true, false, false,
    true, true, false)), (String ((Ascii (false, false, true, false, true,
    true, true, false)), (String ((Ascii (true, false, false, false, false,
    true, true, false)), (String ((Ascii (true, false, false, true, false,
    true, true, false)), (String ((Ascii (false, false, true, true, false,
    true, true, false)), (String ((Ascii (true, true, false, false, true,
    true, true, false)), (String ((Ascii (false, true, false, true, true,
    true, false, false)), (String ((Ascii (true, true, false, false, true,
    false, true, false)), (String ((Ascii (true, false, true, false, false,
    true, true, false)), (String ((Ascii (false, true, true, true, false,
    true, true, false)), (String ((Ascii (true, true, false, false, true,
    true, true, false)), (String ((Ascii (true, true, true, true, false,
    true, true, false)), (String ((Ascii (false, true, false, false, true,
    true, true, false)), (String ((Ascii (false, false, true, false, false,
    false, true, false)), (String ((Ascii (true, false, false, false, false,
    true, true, false)), (String ((Ascii (false, false, true, false, true,
    true, true, false)), (String ((Ascii (true, false, false, false, false,
    true, true, false)), (String ((Ascii (true, true, false, false, true,
    false, true, false)), (String ((Ascii (true, true, true, true, false,
    true, true, false)), (String ((Ascii (true, false, true, false, true,
    true, true, false)), (String ((Ascii (false, true, false, false, true,
    true, true, false)), (String ((Ascii (true, true, false, false, false,
    true, true, false)), (String ((Ascii (true, false, true, false, false,
    true, true, false)),
    EmptyString)))))))))))))))))))))))))))))))))))))))))))))))))))))))))))))))))))))))))))))))))))))))))))))))))))))))))))))))))))))))))))))))))))),
    (((String ((Ascii (true, false, true, false, true, false, true, false)),
    (String ((Ascii (false, true, true, true, false, false, true, false)),
    (String ((Ascii (true, true, false, true, false, false, true, false)),
    (String ((Ascii (false, true, true, true, false, false, true, false)),
    (String ((Ascii (true, true, true, true, false, false, true, false)),
    (String ((Ascii (true, true, true, false, true, false, true, false)),
    (String ((Ascii (false, true, true, true, false, false, true, false)),
    EmptyString)))))))))))))), Z0) :: (((String ((Ascii (true, false, false,
    true, false, false, true, false)), (String ((Ascii (false, true, true,
    true, false, false, true, false)), (String ((Ascii (false, false, true,
    false, true, false, true, false)), (String ((Ascii (true, false, true,
    false, false, false, true, false)), (String ((Ascii (false, true, false,
    false, true, false, true, false)), (String ((Ascii (false, true, true,
    true, false, false, true, false)), (String ((Ascii (true, false, false,
    false, false, false, true, false)), (String ((Ascii (false, false, true,
    true, false, false, true, false)), EmptyString)))))))))))))))), (Zpos
    XH)) :: (((String ((Ascii (false, false, false, true, false, false, true,
    false)), (String ((Ascii (true, false, false, false, false, false, true,
    false)), (String ((Ascii (false, true, false, false, true, false, true,
    false)), (String ((Ascii (false, false, true, false, false, false, true,
    false)), (String ((Ascii (true, true, true, false, true, false, true,
    false)), (String ((Ascii (true, false, false, false, false, false, true,
    false)), (String ((Ascii (false, true, false, false, true, false, true,
    false)), (String ((Ascii (true, false, true, false, false, false, true,
    false)), (String ((Ascii (true, true, true, true, true, false, true,
    false)), (String ((Ascii (true, false, false, true, false, false, true,
    false)), (String ((Ascii (true, true, true, true, false, false, true,
    false)), EmptyString)))))))))))))))))))))), (Zpos (XO XH))) :: (((String
    ((Ascii (true, true, false, false, false, false, true, false)), (String
    ((Ascii (true, false, false, false, false, false, true, false)), (String
    ((Ascii (false, true, true, true, false, false, true, false)),
    EmptyString)))))), (Zpos (XI XH))) :: (((String ((Ascii (true, true,
    false, false, true, false, true, false)), (String ((Ascii (true, false,
    true, false, false, false, true, false)), (String ((Ascii (false, true,
    false, false, true, false, true, false)), (String ((Ascii (true, false,
    false, true, false, false, true, false)), (String ((Ascii (true, false,
    false, false, false, false, true, false)), (String ((Ascii (false, false,
    true, true, false, false, true, false)), EmptyString)))))))))))), (Zpos
    (XO (XO XH)))) :: (((String ((Ascii (false, true, true, true, false,
    false, true, false)), (String ((Ascii (true, false, true, false, false,
    false, true, false)), (String ((Ascii (false, false, true, false, true,
    false, true, false)), (String ((Ascii (true, true, true, false, true,
    false, true, false)), (String ((Ascii (true, true, true, true, false,
    false, true, false)), (String ((Ascii (false, true, false, false, true,
    false, true, false)), (String ((Ascii (true, true, false, true, false,
    false, true, false)), EmptyString)))))))))))))), (Zpos (XI (XO
    XH)))) :: []))))))) :: (((String ((Ascii (false, true, true, false,
    false, true, true, false)), (String ((Ascii (true, false, true, false,
    true, true, true, false)), (String ((Ascii (true, true, false, false,
    true, true, true, false)), (String ((Ascii (true, false, false, true,
    false, true, true, false)), (String ((Ascii (true, true, true, true,
    false, true, true, false)), (String ((Ascii (false, true, true, true,
    false, true, true, false)), (String ((Ascii (true, true, true, true,
    true, false, true, false)), (String ((Ascii (true, false, true, false,
    false, true, true, false)), (String ((Ascii (false, true, true, true,
    false, true, true, false)), (String ((Ascii (true, true, true, false,
    false, true, true, false)), (String ((Ascii (true, false, false, true,
    false, true, true, false)), (String ((Ascii (false, true, true, true,
    false, true, true, false)), (String ((Ascii (true, false, true, false,
    false, true, true, false)), (String ((Ascii (true, true, true, true,
    true, false, true, false)), (String ((Ascii (true, true, false, false,
    false, true, true, false)), (String ((Ascii (false, false, true, true,
    false, true, true, false)), (String ((Ascii (true, false, false, true,
    false, true, true, false)), (String ((Ascii (true, false, true, false,
    false, true, true, false)), (String ((Ascii (false, true, true, true,
    false, true, true, false)), (String ((Ascii (false, false, true, false,
    true, true, true, false)), (String ((Ascii (false, true, true, true,
    false, true, false, false)), (String ((Ascii (true, false, true, true,
    false, true, true, false)), (String ((Ascii (true, false, true, false,
    false, true, true, false)), (String ((Ascii (true, true, false, false,
    true, true, true, false)), (String ((Ascii (true, true, false, false,
    true, true, true, false)), (String ((Ascii (true, false, false, false,
    false, true, true, false)), (String ((Ascii (true, true, true, false,
    false, true, true, false)), (String ((Ascii (true, false, true, false,
    false, true, true, false)), (String ((Ascii (true, true, false, false,
    true, true, true, false)), (String ((Ascii (false, true, true, true,
    false, true, false, false)), (String ((Ascii (true, false, true, true,
    false, true, true, false)), (String ((Ascii (true, false, true, false,
    false, true, true, false)), (String ((Ascii (true, false, false, false,
    false, true, true, false)), (String ((Ascii (true, true, false, false,
    true, true, true, false)), (String ((Ascii (true, false, true, false,
    true, true, true, false)), (String ((Ascii (false, true, false, false,
    true, true, true, false)), (String ((Ascii (true, false, true, false,
    false, true, true, false)), (String ((Ascii (true, false, true, true,
    false, true, true, false)), (String ((Ascii (true, false, true, false,
    false, true, true, false)), (String ((Ascii (false, true, true, true,
    false, true, true, false)), (String ((Ascii (false, false, true, false,
    true, true, true, false)), (String ((Ascii (true, true, true, true, true,
    false, true, false)), (String ((Ascii (false, false, true, false, false,
    true, true, false)), (String ((Ascii (true, false, true, false, false,
    true, true, false)), (String ((Ascii (false, false, true, false, true,
    true, true, false)), (String ((Ascii (true, false, false, false, false,
    true, true, false)), (String ((Ascii (true, false, false, true, false,
    true, true, false)), (String ((Ascii (false, false, true, true, false,
    true, true, false)), (String ((Ascii (true, true, false, false, true,
    true, true, false)), (String ((Ascii (false, true, false, true, true,
    true, false, false)), (String ((Ascii (true, true, false, false, true,
    false, true, false)), (String ((Ascii (true, false, false, true, true,
    true, true, false)), (String ((Ascii (true, true, false, false, true,
    true, true, false)), (String ((Ascii (false, false, true, false, true,
    true, true, false)), (String ((Ascii (true, false, true, false, false,
    true, true, false)), (String ((Ascii (true, false, true, true, false,
    true, true, false)), (String ((Ascii (false, false, true, false, true,
    false, true, false)), (String ((Ascii (true, false, false, true, false,
    true, true, false)), (String ((Ascii (true, false, true, true, false,
    true, true, false)), (String ((Ascii (true, false, true, false, false,
    true, true, false)), (String ((Ascii (true, true, false, false, true,
    false, true, false)), (String ((Ascii (true, true, true, true, false,
    true, true, false)), (String ((Ascii (true, false, true, false, true,
    true, true, false)), (String ((Ascii (false, true, false, false, true,
    true, true, false)), (String ((Ascii (true, true, false, false, false,
    true, true, false)), (String ((Ascii (true, false, true, false, false,
    true, true, false)),
    EmptyString)))))))))))))))))))))))))))))))))))))))))))))))))))))))))))))))))))))))))))))))))))))))))))))))))))))))))))))))))))))))))))))))))))),
    (((String ((Ascii (true, false, false, true, false, false, true, false)),
    (String ((Ascii (false, true, true, true, false, false, true, false)),
    (String ((Ascii (false, true, true, false, true, false, true, false)),
    (String ((Ascii (true, false, false, false, false, false, true, false)),
    (String ((Ascii (false, false, true, true, false, false, true, false)),
    (String ((Ascii (true, false, false, true, false, false, true, false)),
    (String ((Ascii (false, false, true, false, false, false, true, false)),
    EmptyString)))))))))))))), Z0) :: (((String ((Ascii (false, false, false,
    false, true, false, true, false)), (String ((Ascii (true, false, false,
    false, true, true, false, false)), (String ((Ascii (true, true, true,
    true, true, false, true, false)), (String ((Ascii (false, false, true,
    false, true, false, true, false)), (String ((Ascii (true, false, false,
    true, false, false, true, false)), (String ((Ascii (true, false, true,
    true, false, false, true, false)), (String ((Ascii (true, false, true,
    false, false, false, true, false)), EmptyString)))))))))))))), (Zpos
    XH)) :: (((String ((Ascii (false, false, true, false, true, false, true,
    false)), (String ((Ascii (true, false, false, true, false, false, true,
    false)), (String ((Ascii (true, false, true, true, false, false, true,
    false)), (String ((Ascii (true, false, true, false, false, false, true,
    false)), (String ((Ascii (true, true, false, false, true, false, true,
    false)), (String ((Ascii (false, false, true, false, true, false, true,
    false)), (String ((Ascii (true, false, false, false, false, false, true,
    false)), (String ((Ascii (true, false, true, true, false, false, true,
    false)), (String ((Ascii (false, false, false, false, true, false, true,
    false)), (String ((Ascii (true, false, true, false, false, false, true,
    false)), (String ((Ascii (false, false, true, false, false, false, true,
    false)), (String ((Ascii (true, true, true, true, true, false, true,
    false)), (String ((Ascii (true, true, true, true, false, false, true,
    false)), (String ((Ascii (false, true, true, true, false, false, true,
    false)), (String ((Ascii (true, true, true, true, true, false, true,
    false)), (String ((Ascii (false, true, false, false, true, false, true,
    false)), (String ((Ascii (true, false, true, false, false, false, true,
    false)), (String ((Ascii (true, true, false, false, false, false, true,
    false)), (String ((Ascii (true, false, true, false, false, false, true,
    false)), (String ((Ascii (false, false, false, false, true, false, true,
    false)), (String ((Ascii (false, false, true, false, true, false, true,
    false)), (String ((Ascii (true, false, false, true, false, false, true,
    false)), (String ((Ascii (true, true, true, true, false, false, true,
    false)), (String ((Ascii (false, true, true, true, false, false, true,
    false)), EmptyString)))))))))))))))))))))))))))))))))))))))))))))))),
    (Zpos (XO XH))) :: (((String ((Ascii (true, true, false, false, true,
    false, true, false)), (String ((Ascii (true, false, true, false, false,
    false, true, false)), (String ((Ascii (false, true, true, true, false,
    false, true, false)), (String ((Ascii (false, false, true, false, false,
    false, true, false)), (String ((Ascii (true, false, true, false, false,
    false, true, false)), (String ((Ascii (false, true, false, false, true,
    false, true, false)), (String ((Ascii (true, true, true, true, true,
    false, true, false)), (String ((Ascii (true, true, false, false, true,
    false, true, false)), (String ((Ascii (true, false, false, true, true,
    false, true, false)), (String ((Ascii (true, true, false, false, true,
    false, true, false)), (String ((Ascii (false, false, true, false, true,
    false, true, false)), (String ((Ascii (true, false, true, false, false,
    false, true, false)), (String ((Ascii (true, false, true, true, false,
    false, true, false)), (String ((Ascii (true, true, true, true, true,
    false, true, false)), (String ((Ascii (false, false, true, false, true,
    false, true, false)), (String ((Ascii (true, false, false, true, false,
    false, true, false)), (String ((Ascii (true, false, true, true, false,
    false, true, false)), (String ((Ascii (true, false, true, false, false,
    false, true, false)), EmptyString)))))))))))))))))))))))))))))))))))),
    (Zpos (XI XH))) :: (((String ((Ascii (true, true, true, false, false,
    false, true, false)), (String ((Ascii (false, false, false, false, true,
    false, true, false)), (String ((Ascii (true, true, false, false, true,
    false, true, false)), (String ((Ascii (true, true, true, true, true,
    false, true, false)), (String ((Ascii (false, false, true, false, true,
    false, true, false)), (String ((Ascii (true, false, false, true, false,
    false, true, false)), (String ((Ascii (true, false, true, true, false,
    false, true, false)), (String ((Ascii (true, false, true, false, false,
    false, true, false)), EmptyString)))))))))))))))), (Zpos (XO (XO
    XH)))) :: [])))))) :: (((String ((Ascii (false, true, true, false, false,
    true, true, false)), (String ((Ascii (true, false, true, false, true,
    true, true, false)), (String ((Ascii (true, true, false, false, true,
    true, true, false)), (String ((Ascii (true, false, false, true, false,
    true, true, false)), (String ((Ascii (true, true, true, true, false,
    true, true, false)), (String ((Ascii (false, true, true, true, false,
    true, true, false)), (String ((Ascii (true, true, true, true, true,
    false, true, false)), (String ((Ascii (true, false, true, false, false,
    true, true, false)), (String ((Ascii (false, true, true, true, false,
    true, true, false)), (String ((Ascii (true, true, true, false, false,
    true, true, false)), (String ((Ascii (true, false, false, true, false,
    true, true, false)), (String ((Ascii (false, true, true, true, false,
    true, true, false)), (String ((Ascii (true, false, true, false, false,
    true, true, false)), (String ((Ascii (true, true, true, true, true,
    false, true, false)), (String ((Ascii (true, true, false, false, false,
    true, true, false)), (String ((Ascii (false, false, true, true, false,
    true, true, false)), (String ((Ascii (true, false, false, true, false,
    true, true, false)), (String ((Ascii (true, false, true, false, false,
    true, true, false)), (String ((Ascii (false, true, true, true, false,
    true, true, false)), (String ((Ascii (false, false, true, false, true,
    true, true, false)), (String ((Ascii (false, true, true, true, false,
    true, false, false)), (String ((Ascii (true, false, true, true, false,
    true, true, false)), (String ((Ascii (true, false, true, false, false,
    true, true, false)), (String ((Ascii (true, true, false, false, true,
    true, true, false)), (String ((Ascii (true, true, false, false, true,
    true, true, false)), (String ((Ascii (true, false, false, false, false,
    true, true, false)), (String ((Ascii (true, true, true, false, false,
    true, true, false)), (String ((Ascii (true, false, true, false, false,
    true, true, false)), (String ((Ascii (true, true, false, false, true,
    true, true, false)), (String ((Ascii (false, true, true, true, false,
    true, false, false)), (String ((Ascii (true, false, true, true, false,
    true, true, false)), (String ((Ascii (true, false, true, false, false,
    true, true, false)), (String ((Ascii (true, false, false, false, false,
    true, true, false)), (String ((Ascii (true, true, false, false, true,
    true, true, false)), (String ((Ascii (true, false, true, false, true,
    true, true, false)), (String ((Ascii (false, true, false, false, true,
    true, true, false)), (String ((Ascii (true, false, true, false, false,
    true, true, false)), (String ((Ascii (true, false, true, true, false,
    true, true, false)), (String ((Ascii (true, false, true, false, false,
    true, true, false)), (String ((Ascii (false, true, true, true, false,
    true, true, false)), (String ((Ascii (false, false, true, false, true,
    true, true, false)), (String ((Ascii (true, true, false, false, true,
    true, true, false)), (String ((Ascii (false, true, false, true, true,
    true, false, false)), (String ((Ascii (true, true, true, false, false,
    false, true, false)), (String ((Ascii (true, false, true, false, false,
    true, true, false)), (String ((Ascii (true, false, false, false, false,
    true, true, false)), (String ((Ascii (false, true, false, false, true,
    true, true, false)), (String ((Ascii (false, false, true, false, true,
    false, true, false)), (String ((Ascii (true, false, false, true, true,
    true, true, false)), (String ((Ascii (false, false, false, false, true,
    true, true, false)), (String ((Ascii (true, false, true, false, false,
    true, true, false)),
    EmptyString)))))))))))))))))))))))))))))))))))))))))))))))))))))))))))))))))))))))))))))))))))))))))))))))))))))),
    (((String ((Ascii (true, false, true, false, true, false, true, false)),
    (String ((Ascii (false, true, true, true, false, false, true, false)),
    (String ((Ascii (true, true, false, true, false, false, true, false)),
    (String ((Ascii (false, true, true, true, false, false, true, false)),
    (String ((Ascii (true, true, true, true, false, false, true, false)),
    (String ((Ascii (true, true, true, false, true, false, true, false)),
    (String ((Ascii (false, true, true, true, false, false, true, false)),
    EmptyString)))))))))))))), Z0) :: (((String ((Ascii (false, true, true,
    false, false, false, true, false)), (String ((Ascii (true, true, true,
    true, false, false, true, false)), (String ((Ascii (false, true, false,
    false, true, false, true, false)), (String ((Ascii (true, true, true,
    false, true, false, true, false)), (String ((Ascii (true, false, false,
    false, false, false, true, false)), (String ((Ascii (false, true, false,
    false, true, false, true, false)), (String ((Ascii (false, false, true,
    false, false, false, true, false)), EmptyString)))))))))))))), (Zpos
    XH)) :: (((String ((Ascii (false, true, false, false, true, false, true,
    false)), (String ((Ascii (true, false, true, false, false, false, true,
    false)), (String ((Ascii (false, true, true, false, true, false, true,
    false)), (String ((Ascii (true, false, true, false, false, false, true,
    false)), (String ((Ascii (false, true, false, false, true, false, true,
    false)), (String ((Ascii (true, true, false, false, true, false, true,
    false)), (String ((Ascii (true, false, true, false, false, false, true,
    false)), EmptyString)))))))))))))), (Zpos (XO XH))) :: (((String ((Ascii
    (false, false, false, false, true, false, true, false)), (String ((Ascii
    (true, false, false, false, false, false, true, false)), (String ((Ascii
    (false, true, false, false, true, false, true, false)), (String ((Ascii
    (true, true, false, true, false, false, true, false)),
    EmptyString)))))))), (Zpos (XI XH))) :: (((String ((Ascii (false, true,
    true, true, false, false, true, false)), (String ((Ascii (true, false,
    true, false, false, false, true, false)), (String ((Ascii (true, false,
    true, false, true, false, true, false)), (String ((Ascii (false, false,
    true, false, true, false, true, false)), (String ((Ascii (false, true,
    false, false, true, false, true, false)), (String ((Ascii (true, false,
    false, false, false, false, true, false)), (String ((Ascii (false, false,
    true, true, false, false, true, false)), EmptyString)))))))))))))), (Zpos
    (XO (XO XH)))) :: [])))))) :: (((String ((Ascii (false, true, true,
    false, false, true, true, false)), (String ((Ascii (true, false, true,
    false, true, true, true, false)), (String ((Ascii (true, true, false,
    false, true, true, true, false)), (String ((Ascii (true, false, false,
    true, false, true, true, false)), (String ((Ascii (true, true, true,
    true, false, true, true, false)), (String ((Ascii (false, true, true,
    true, false, true, true, false)), (String ((Ascii (true, true, true,
    true, true, false, true, false)), (String ((Ascii (true, false, true,
    false, false, true, true, false)), (String ((Ascii (false, true, true,
    true, false, true, true, false)), (String ((Ascii (true, true, true,
    false, false, true, true, false)), (String ((Ascii (true, false, false,
    true, false, true, true, false)), (String ((Ascii (false, true, true,
    true, false, true, true, false)), (String ((Ascii (true, false, true,
    false, false, true, true, false)), (String ((Ascii (true, true, true,
    true, true, false, true, false)), (String ((Ascii (true, true, false,
    false, false, true, true, false)), (String ((Ascii (false, false, true,
    true, false, true, true, false)), (String ((Ascii (true, false, false,
    true, false, true, true, false)), (String ((Ascii (true, false, true,
    false, false, true, true, false)), (String ((Ascii (false, true, true,
    true, false, true, true, false)), (String ((Ascii (false, false, true,
    false, true, true, true, false)), (String ((Ascii (false, true, true,
    true, false, true, false, false)), (String ((Ascii (true, false, true,
    true, false, true, true, false)), (String ((Ascii (true, false, true,
    false, false, true, true, false)), (String ((Ascii (true, true, false,
    false, true, true, true, false)), (String ((Ascii (true, true, false,
    false, true, true, true, false)), (String ((Ascii (true, false, false,
    false, false, true, true, false)), (String ((Ascii (true, true, true,
    false, false, true, true, false)), (String ((Ascii (true, false, true,
    false, false, true, true, false)), (String ((Ascii (true, true, false,
    false, true, true, true, false)), (String ((Ascii (false, true, true,
    true, false, true, false, false)), (String ((Ascii (false, true, false,
    false, true, true, true, false)), (String ((Ascii (true, true, true,
    true, false, true, true, false)), (String ((Ascii (true, true, false,
    false, true, true, true, false)), (String ((Ascii (false, true, false,
    true, true, true, false, false)), (String ((Ascii (true, true, false,
    false, false, false, true, false)), (String ((Ascii (true, true, true,
    true, false, true, true, false)), (String ((Ascii (false, true, true,
    false, true, true, true, false)), (String ((Ascii (true, false, false,
    false, false, true, true, false)), (String ((Ascii (false, true, false,
    false, true, true, true, false)), (String ((Ascii (true, false, false,
    true, false, true, true, false)), (String ((Ascii (true, false, false,
    false, false, true, true, false)), (String ((Ascii (false, true, true,
    true, false, true, true, false)), (String ((Ascii (true, true, false,
    false, false, true, true, false)), (String ((Ascii (true, false, true,
    false, false, true, true, false)), (String ((Ascii (false, false, true,
    false, true, false, true, false)), (String ((Ascii (true, false, false,
    true, true, true, true, false)), (String ((Ascii (false, false, false,
    false, true, true, true, false)), (String ((Ascii (true, false, true,
    false, false, true, true, false)),
    EmptyString)))))))))))))))))))))))))))))))))))))))))))))))))))))))))))))))))))))))))))))))))))))))))))))))),
    (((String ((Ascii (true, true, false, false, false, false, true, false)),
    (String ((Ascii (true, true, true, true, false, false, true, false)),
    (String ((Ascii (false, true, true, false, true, false, true, false)),
    (String ((Ascii (true, false, false, false, false, false, true, false)),
    (String ((Ascii (false, true, false, false, true, false, true, false)),
    (String ((Ascii (true, false, false, true, false, false, true, false)),
    (String ((Ascii (true, false, false, false, false, false, true, false)),
    (String ((Ascii (false, true, true, true, false, false, true, false)),
    (String ((Ascii (true, true, false, false, false, false, true, false)),
    (String ((Ascii (true, false, true, false, false, false, true, false)),
    (String ((Ascii (true, true, true, true, true, false, true, false)),
    (String ((Ascii (false, false, true, false, true, false, true, false)),
    (String ((Ascii (true, false, false, true, true, false, true, false)),
    (String ((Ascii (false, false, false, false, true, false, true, false)),
    (String ((Ascii (true, false, true, false, false, false, true, false)),
    (String ((Ascii (true, true, true, true, true, false, true, false)),
    (String ((Ascii (true, false, true, false, true, false, true, false)),
    (String ((Ascii (false, true, true, true, false, false, true, false)),
    (String ((Ascii (true, true, false, true, false, false, true, false)),
    (String ((Ascii (false, true, true, true, false, false, true, false)),
    (String ((Ascii (true, true, true, true, false, false, true, false)),
    (String ((Ascii (true, true, true, false, true, false, true, false)),
    (String ((Ascii (false, true, true, true, false, false, true, false)),
    EmptyString)))))))))))))))))))))))))))))))))))))))))))))),
    Z0) :: (((String ((Ascii (true, true, false, false, false, false, true,
    false)), (String ((Ascii (true, true, true, true, false, false, true,
    false)), (String ((Ascii (false, true, true, false, true, false, true,
    false)), (String ((Ascii (true, false, false, false, false, false, true,
    false)), (String ((Ascii (false, true, false, false, true, false, true,
    false)), (String ((Ascii (true, false, false, true, false, false, true,
    false)), (String ((Ascii (true, false, false, false, false, false, true,
    false)), (String ((Ascii (false, true, true, true, false, false, true,
    false)), (String ((Ascii (true, true, false, false, false, false, true,
    false)), (String ((Ascii (true, false, true, false, false, false, true,
    false)), (String ((Ascii (true, true, true, true, true, false, true,
    false)), (String ((Ascii (false, false, true, false, true, false, true,
    false)), (String ((Ascii (true, false, false, true, true, false, true,
    false)), (String ((Ascii (false, false, false, false, true, false, true,
    false)), (String ((Ascii (true, false, true, false, false, false, true,
    false)), (String ((Ascii (true, true, true, true, true, false, true,
    false)), (String ((Ascii (true, false, false, false, false, false, true,
    false)), (String ((Ascii (false, false, false, false, true, false, true,
    false)), (String ((Ascii (false, false, false, false, true, false, true,
    false)), (String ((Ascii (false, true, false, false, true, false, true,
    false)), (String ((Ascii (true, true, true, true, false, false, true,
    false)), (String ((Ascii (false, false, false, true, true, false, true,
    false)), (String ((Ascii (true, false, false, true, false, false, true,
    false)), (String ((Ascii (true, false, true, true, false, false, true,
    false)), (String ((Ascii (true, false, false, false, false, false, true,
    false)), (String ((Ascii (false, false, true, false, true, false, true,
    false)), (String ((Ascii (true, false, true, false, false, false, true,
    false)), (String ((Ascii (false, false, true, false, false, false, true,
    false)),
    EmptyString)))))))))))))))))))))))))))))))))))))))))))))))))))))))),
    (Zpos XH)) :: (((String ((Ascii (true, true, false, false, false, false,
    true, false)), (String ((Ascii (true, true, true, true, false, false,
    true, false)), (String ((Ascii (false, true, true, false, true, false,
    true, false)), (String ((Ascii (true, false, false, false, false, false,
    true, false)), (String ((Ascii (false, true, false, false, true, false,
    true, false)), (String ((Ascii (true, false, false, true, false, false,
    true, false)), (String ((Ascii (true, false, false, false, false, false,
    true, false)), (String ((Ascii (false, true, true, true, false, false,
    true, false)), (String ((Ascii (true, true, false, false, false, false,
    true, false)), (String ((Ascii (true, false, true, false, false, false,
    true, false)), (String ((Ascii (true, true, true, true, true, false,
    true, false)), (String ((Ascii (false, false, true, false, true, false,
    true, false)), (String ((Ascii (true, false, false, true, true, false,
    true, false)), (String ((Ascii (false, false, false, false, true, false,
    true, false)), (String ((Ascii (true, false, true, false, false, false,
    true, false)), (String ((Ascii (true, true, true, true, true, false,
    true, false)), (String ((Ascii (false, false, true, false, false, false,
    true, false)), (String ((Ascii (true, false, false, true, false, false,
    true, false)), (String ((Ascii (true, false, false, false, false, false,
    true, false)), (String ((Ascii (true, true, true, false, false, false,
    true, false)), (String ((Ascii (true, true, true, true, false, false,
    true, false)), (String ((Ascii (false, true, true, true, false, false,
    true, false)), (String ((Ascii (true, false, false, false, false, false,
    true, false)), (String ((Ascii (false, false, true, true, false, false,
    true, false)), (String ((Ascii (true, true, true, true, true, false,
    true, false)), (String ((Ascii (true, true, false, true, false, false,
    true, false)), (String ((Ascii (false, true, true, true, false, false,
    true, false)), (String ((Ascii (true, true, true, true, false, false,
    true, false)), (String ((Ascii (true, true, true, false, true, false,
    true, false)), (String ((Ascii (false, true, true, true, false, false,
    true, false)),
    EmptyString)))))))))))))))))))))))))))))))))))))))))))))))))))))))))))),
    (Zpos (XO XH))) :: (((String ((Ascii (true, true, false, false, false,
    false, true, false)), (String ((Ascii (true, true, true, true, false,
    false, true, false)), (String ((Ascii (false, true, true, false, true,
    false, true, false)), (String ((Ascii (true, false, false, false, false,
    false, true, false)), (String ((Ascii (false, true, false, false, true,
    false, true, false)), (String ((Ascii (true, false, false, true, false,
    false, true, false)), (String ((Ascii (true, false, false, false, false,
    false, true, false)), (String ((Ascii (false, true, true, true, false,
    false, true, false)), (String ((Ascii (true, true, false, false, false,
    false, true, false)), (String ((Ascii (true, false, true, false, false,
    false, true, false)), (String ((Ascii (true, true, true, true, true,
    false, true, false)), (String ((Ascii (false, false, true, false, true,
    false, true, false)), (String ((Ascii (true, false, false, true, true,
    false, true, false)), (String ((Ascii (false, false, false, false, true,
    false, true, false)), (String ((Ascii (true, false, true, false, false,
    false, true, false)), (String ((Ascii (true, true, true, true, true,
    false, true, false)), (String ((Ascii (true, true, false, true, false,
    false, true, false)), (String ((Ascii (false, true, true, true, false,
    false, true, false)), (String ((Ascii (true, true, true, true, false,
    false, true, false)), (String ((Ascii (true, true, true, false, true,
    false, true, false)), (String ((Ascii (false, true, true, true, false,
    false, true, false)),
    EmptyString)))))))))))))))))))))))))))))))))))))))))), (Zpos (XI
    XH))) :: []))))) :: (((String ((Ascii (false, true, true, false, false,
    true, true, false)), (String ((Ascii (true, false, true, false, true,
    true, true, false)), (String ((Ascii (true, true, false, false, true,
    true, true, false)), (String ((Ascii (true, false, false, true, false,
    true, true, false)), (String ((Ascii (true, true, true, true, false,
    true, true, false)), (String ((Ascii (false, true, true, true, false,
    true, true, false)), (String ((Ascii (true, true, true, true, true,
    false, true, false)), (String ((Ascii (true, false, true, false, false,
    true, true, false)), (String ((Ascii (false, true, true, true, false,
    true, true, false)), (String ((Ascii (true, true, true, false, false,
    true, true, false)), (String ((Ascii (true, false, false, true, false,
    true, true, false)), (String ((Ascii (false, true, true, true, false,
    true, true, false)), (String ((Ascii (true, false, true, false, false,
    true, true, false)), (String ((Ascii (true, true, true, true, true,
    false, true, false)), (String ((Ascii (true, true, false, false, false,
    true, true, false)), (String ((Ascii (false, false, true, true, false,
    true, true, false)), (String ((Ascii (true, false, false, true, false,
    true, true, false)), (String ((Ascii (true, false, true, false, false,
    true, true, false)), (String ((Ascii (false, true, true, true, false,
    true, true, false)), (String ((Ascii (false, false, true, false, true,
    true, true, false)), (String ((Ascii (false, true, true, true, false,
    true, false, false)), (String ((Ascii (true, false, true, true, false,
    true, true, false)), (String ((Ascii (true, false, true, false, false,
    true, true, false)), (String ((Ascii (true, true, false, false, true,
    true, true, false)), (String ((Ascii (true, true, false, false, true,
    true, true, false)), (String ((Ascii (true, false, false, false, false,
    true, true, false)), (String ((Ascii (true, true, true, false, false,
    true, true, false)), (String ((Ascii (true, false, true, false, false,
    true, true, false)), (String ((Ascii (true, true, false, false, true,
    true, true, false)), (String ((Ascii (false, true, true, true, false,
    true, false, false)), (String ((Ascii (true, true, false, false, true,
    true, true, false)), (String ((Ascii (true, false, false, true, false,
    true, true, false)), (String ((Ascii (true, true, true, false, false,
    true, true, false)), (String ((Ascii (false, true, true, true, false,
    true, true, false)), (String ((Ascii (true, false, false, false, false,
    true, true, false)), (String ((Ascii (false, false, true, true, false,
    true, true, false)), (String ((Ascii (true, true, true, true, true,
    false, true, false)), (String ((Ascii (false, false, true, false, false,
    true, true, false)), (String ((Ascii (true, false, true, false, false,
    true, true, false)), (String ((Ascii (false, true, true, false, false,
    true, true, false)), (String ((Ascii (true, true, false, false, true,
    true, true, false)), (String ((Ascii (false, true, false, true, true,
    true, false, false)), (String ((Ascii (false, true, true, false, false,
    false, true, false)), (String ((Ascii (false, true, false, false, true,
    true, true, false)), (String ((Ascii (true, false, true, false, false,
    true, true, false)), (String ((Ascii (true, false, false, false, true,
    true, true, false)), (String ((Ascii (true, false, true, false, true,
    true, true, false)), (String ((Ascii (true, false, true, false, false,
    true, true, false)), (String ((Ascii (false, true, true, true, false,
    true, true, false)), (String ((Ascii (true, true, false, false, false,
    true, true, false)), (String ((Ascii (true, false, false, true, true,
    true, true, false)), (String ((Ascii (false, true, false, false, false,
    false, true, false)), (String ((Ascii (true, false, false, false, false,
    true, true, false)), (String ((Ascii (false, true, true, true, false,
    true, true, false)), (String ((Ascii (false, false, true, false, false,
    true, true, false)),
    EmptyString)))))))))))))))))))))))))))))))))))))))))))))))))))))))))))))))))))))))))))))))))))))))))))))))))))))))))))))),
    (((String ((Ascii (true, false, true, false, true, false, true, false)),
    (String ((Ascii (false, true, true, true, false, false, true, false)),
    (String ((Ascii (true, true, false, true, false, false, true, false)),
    (String ((Ascii (false, true, true, true, false, false, true, false)),
    (String ((Ascii (true, true, true, true, false, false, true, false)),
    (String ((Ascii (true, true, true, false, true, false, true, false)),
    (String ((Ascii (false, true, true, true, false, false, true, false)),
    EmptyString)))))))))))))), Z0) :: (((String ((Ascii (false, false, true,
    true, false, false, true, false)), (String ((Ascii (true, false, false,
    false, true, true, false, false)), EmptyString)))), (Zpos
    XH)) :: (((String ((Ascii (false, false, true, true, false, false, true,
    false)), (String ((Ascii (false, true, false, false, true, true, false,
    false)), EmptyString)))), (Zpos (XO XH))) :: (((String ((Ascii (false,
    false, true, true, false, false, true, false)), (String ((Ascii (true,
    false, true, false, true, true, false, false)), EmptyString)))), (Zpos
    (XI (XO XH)))) :: (((String ((Ascii (false, false, true, true, false,
    false, true, false)), (String ((Ascii (false, true, true, false, true,
    true, false, false)), EmptyString)))), (Zpos (XO (XI
    XH)))) :: [])))))) :: (((String ((Ascii (false, true, true, false, false,
    true, true, false)), (String ((Ascii (true, false, true, false, true,
    true, true, false)), (String ((Ascii (true, true, false, false, true,
    true, true, false)), (String ((Ascii (true, false, false, true, false,
    true, true, false)), (String ((Ascii (true, true, true, true, false,
    true, true, false)), (String ((Ascii (false, true, true, true, false,
    true, true, false)), (String ((Ascii (true, true, true, true, true,
    false, true, false)), (String ((Ascii (true, false, true, false, false,
    true, true, false)), (String ((Ascii (false, true, true, true, false,
    true, true, false)), (String ((Ascii (true, true, true, false, false,
    true, true, false)), (String ((Ascii (true, false, false, true, false,
    true, true, false)), (String ((Ascii (false, true, true, true, false,
    true, true, false)), (String ((Ascii (true, false, true, false, false,
    true, true, false)), (String ((Ascii (true, true, true, true, true,
    false, true, false)), (String ((Ascii (true, true, false, false, false,
    true, true, false)), (String ((Ascii (false, false, true, true, false,
    true, true, false)), (String ((Ascii (true, false, false, true, false,
    true, true, false)), (String ((Ascii (true, false, true, false, false,
    true, true, false)), (String ((Ascii (false, true, true, true, false,
    true, true, false)), (String ((Ascii (false, false, true, false, true,
    true, true, false)), (String ((Ascii (false, true, true, true, false,
    true, false, false)), (String ((Ascii (true, false, true, true, false,
    true, true, false)), (String ((Ascii (true, false, true, false, false,
    true, true, false)), (String ((Ascii (true, true, false, false, true,
    true, true, false)), (String ((Ascii (true, true, false, false, true,
    true, true, false)), (String ((Ascii (true, false, false, false, false,
    true, true, false)), (String ((Ascii (true, true, true, false, false,
    true, true, false)), (String ((Ascii (true, false, true, false, false,
    true, true, false)), (String ((Ascii (true, true, false, false, true,
    true, true, false)), (String ((Ascii (false, true, true, true, false,
    true, false, false)), (String ((Ascii (true, true, false, false, true,
    true, true, false)), (String ((Ascii (true, false, false, true, false,
    true, true, false)), (String ((Ascii (true, true, true, false, false,
    true, true, false)), (String ((Ascii (false, true, true, true, false,
    true, true, false)), (String ((Ascii (true, false, false, false, false,
    true, true, false)), (String ((Ascii (false, false, true, true, false,
    true, true, false)), (String ((Ascii (true, true, true, true, true,
    false, true, false)), (String ((Ascii (false, false, true, false, false,
    true, true, false)), (String ((Ascii (true, false, true, false, false,
    true, true, false)), (String ((Ascii (false, true, true, false, false,
    true, true, false)), (String ((Ascii (true, true, false, false, true,
    true, true, false)), (String ((Ascii (false, true, false, true, true,
    true, false, false)), (String ((Ascii (false, true, true, false, false,
    false, true, false)), (String ((Ascii (false, true, false, false, true,
    true, true, false)), (String ((Ascii (true, false, true, false, false,
    true, true, false)), (String ((Ascii (true, false, false, false, true,
    true, true, false)), (String ((Ascii (true, false, true, false, true,
    true, true, false)), (String ((Ascii (true, false, true, false, false,
    true, true, false)), (String ((Ascii (false, true, true, true, false,
    true, true, false)), (String ((Ascii (true, true, false, false, false,
    true, true, false)), (String ((Ascii (true, false, false, true, true,
    true, true, false)), (String ((Ascii (false, true, false, false, false,
    false, true, false)), (String ((Ascii (true, false, false, false, false,
    true, true, false)), (String ((Ascii (false, true, true, true, false,
    true, true, false)), (String ((Ascii (false, false, true, false, false,
    true, true, false)), (String ((Ascii (true, false, true, true, false,
    false, true, false)), (String ((Ascii (true, false, false, false, false,
    true, true, false)), (String ((Ascii (true, true, false, false, true,
    true, true, false)), (String ((Ascii (true, true, false, true, false,
    true, true, false)),
    EmptyString)))))))))))))))))))))))))))))))))))))))))))))))))))))))))))))))))))))))))))))))))))))))))))))))))))))))))))))))))))))),
    (((String ((Ascii (true, false, false, false, false, false, true,
    false)), (String ((Ascii (false, false, true, true, false, false, true,
    false)), (String ((Ascii (false, false, true, true, false, false, true,
    false)), EmptyString)))))), (Zpos (XI (XI (XI (XI (XI (XI (XI (XI (XI (XI
    (XI (XI (XI (XI (XI (XI (XI (XI (XI (XI (XI (XI (XI (XI (XI (XI (XI (XI
    (XI (XI (XI XH))))))))))))))))))))))))))))))))) :: (((String ((Ascii
    (false, false, true, true, false, false, true, false)), (String ((Ascii
    (true, false, false, false, true, true, false, false)), EmptyString)))),
    (Zpos (XO XH))) :: (((String ((Ascii (false, false, true, true, false,
    false, true, false)), (String ((Ascii (false, true, false, false, true,
    true, false, false)), EmptyString)))), (Zpos (XO (XO XH)))) :: (((String
    ((Ascii (false, false, true, true, false, false, true, false)), (String
    ((Ascii (true, false, true, false, true, true, false, false)),
    EmptyString)))), (Zpos (XO (XO (XO (XO (XO XH))))))) :: (((String ((Ascii
    (false, false, true, true, false, false, true, false)), (String ((Ascii
    (false, true, true, false, true, true, false, false)), EmptyString)))),
    (Zpos (XO (XO (XO (XO (XO (XO XH)))))))) :: (((String ((Ascii (true,
    false, true, false, true, false, true, false)), (String ((Ascii (false,
    true, true, true, false, false, true, false)), (String ((Ascii (true,
    true, false, true, false, false, true, false)), (String ((Ascii (false,
    true, true, true, false, false, true, false)), (String ((Ascii (true,
    true, true, true, false, false, true, false)), (String ((Ascii (true,
    true, true, false, true, false, true, false)), (String ((Ascii (false,
    true, true, true, false, false, true, false)), EmptyString)))))))))))))),
    (Zpos XH)) :: []))))))) :: (((String ((Ascii (false, true, true, false,
    false, true, true, false)), (String ((Ascii (true, false, true, false,
    true, true, true, false)), (String ((Ascii (true, true, false, false,
    true, true, true, false)), (String ((Ascii (true, false, false, true,
    false, true, true, false)), (String ((Ascii (true, true, true, true,
    false, true, true, false)), (String ((Ascii (false, true, true, true,
    false, true, true, false)), (String ((Ascii (true, true, true, true,
    true, false, true, false)), (String ((Ascii (true, false, true, false,
    false, true, true, false)), (String ((Ascii (false, true, true, true,
    false, true, true, false)), (String ((Ascii (true, true, true, false,
    false, true, true, false)), (String ((Ascii (true, false, false, true,
    false, true, true, false)), (String ((Ascii (false, true, true, true,
    false, true, true, false)), (String ((Ascii (true, false, true, false,
    false, true, true, false)), (String ((Ascii (true, true, true, true,
    true, false, true, false)), (String ((Ascii (true, true, false, false,
    false, true, true, false)), (String ((Ascii (false, false, true, true,
    false, true, true, false)), (String ((Ascii (true, false, false, true,
    false, true, true, false)), (String ((Ascii (true, false, true, false,
    false, true, true, false)), (String ((Ascii (false, true, true, true,
    false, true, true, false)), (String ((Ascii (false, false, true, false,
    true, true, true, false)), (String ((Ascii (false, true, true, true,
    false, true, false, false)), (String ((Ascii (true, false, true, true,
    false, true, true, false)), (String ((Ascii (true, false, true, false,
    false, true, true, false)), (String ((Ascii (true, true, false, false,
    true, true, true, false)), (String ((Ascii (true, true, false, false,
    true, true, true, false)), (String ((Ascii (true, false, false, false,
    false, true, true, false)), (String ((Ascii (true, true, true, false,
    false, true, true, false)), (String ((Ascii (true, false, true, false,
    false, true, true, false)), (String ((Ascii (true, true, false, false,
    true, true, true, false)), (String ((Ascii (false, true, true, true,
    false, true, false, false)), (String ((Ascii (true, true, false, false,
    true, true, true, false)), (String ((Ascii (true, false, false, true,
    false, true, true, false)), (String ((Ascii (true, true, true, false,
    false, true, true, false)), (String ((Ascii (false, true, true, true,
    false, true, true, false)), (String ((Ascii (true, false, false, false,
    false, true, true, false)), (String ((Ascii (false, false, true, true,
    false, true, true, false)), (String ((Ascii (true, true, true, true,
    true, false, true, false)), (String ((Ascii (false, false, true, false,
    false, true, true, false)), (String ((Ascii (true, false, true, false,
    false, true, true, false)), (String ((Ascii (false, true, true, false,
    false, true, true, false)), (String ((Ascii (true, true, false, false,
    true, true, true, false)), (String ((Ascii (false, true, false, true,
    true, true, false, false)), (String ((Ascii (true, true, false, false,
    true, false, true, false)), (String ((Ascii (true, false, false, false,
    false, true, true, false)), (String ((Ascii (false, false, true, false,
    true, true, true, false)), (String ((Ascii (true, false, true, false,
    false, true, true, false)), (String ((Ascii (false, false, true, true,
    false, true, true, false)), (String ((Ascii (false, false, true, true,
    false, true, true, false)), (String ((Ascii (true, false, false, true,
    false, true, true, false)), (String ((Ascii (false, false, true, false,
    true, true, true, false)), (String ((Ascii (true, false, true, false,
    false, true, true, false)), (String ((Ascii (false, false, true, false,
    true, false, true, false)), (String ((Ascii (true, false, false, true,
    true, true, true, false)), (String ((Ascii (false, false, false, false,
    true, true, true, false)), (String ((Ascii (true, false, true, false,
    false, true, true, false)),
    EmptyString)))))))))))))))))))))))))))))))))))))))))))))))))))))))))))))))))))))))))))))))))))))))))))))))))))))))))))))),
    (((String ((Ascii (true, false, true, false, true, false, true, false)),
    (String ((Ascii (false, true, true, true, false, false, true, false)),
    (String ((Ascii (true, true, false, true, false, false, true, false)),
    (String ((Ascii (false, true, true, true, false, false, true, false)),
    (String ((Ascii (true, true, true, true, false, false, true, false)),
    (String ((Ascii (true, true, true, false, true, false, true, false)),
    (String ((Ascii (false, true, true, true, false, false, true, false)),
    EmptyString)))))))))))))), Z0) :: (((String ((Ascii (true, true, true,
    false, false, false, true, false)), (String ((Ascii (false, false, false,
    false, true, false, true, false)), (String ((Ascii (true, true, false,
    false, true, false, true, false)), EmptyString)))))), (Zpos
    XH)) :: (((String ((Ascii (true, true, true, false, false, false, true,
    false)), (String ((Ascii (false, false, true, true, false, false, true,
    false)), (String ((Ascii (true, true, true, true, false, false, true,
    false)), (String ((Ascii (false, true, true, true, false, false, true,
    false)), (String ((Ascii (true, false, false, false, false, false, true,
    false)), (String ((Ascii (true, true, false, false, true, false, true,
    false)), (String ((Ascii (true, true, false, false, true, false, true,
    false)), EmptyString)))))))))))))), (Zpos (XO XH))) :: (((String ((Ascii
    (false, false, true, true, false, false, true, false)), (String ((Ascii
    (true, false, true, false, false, false, true, false)), (String ((Ascii
    (true, true, true, true, false, false, true, false)), EmptyString)))))),
    (Zpos (XI XH))) :: (((String ((Ascii (true, true, true, false, false,
    false, true, false)), (String ((Ascii (true, false, false, false, false,
    false, true, false)), (String ((Ascii (false, false, true, true, false,
    false, true, false)), (String ((Ascii (true, false, false, true, false,
    false, true, false)), (String ((Ascii (false, false, true, true, false,
    false, true, false)), (String ((Ascii (true, false, true, false, false,
    false, true, false)), (String ((Ascii (true, true, true, true, false,
    false, true, false)), EmptyString)))))))))))))), (Zpos (XO (XO
    XH)))) :: (((String ((Ascii (false, true, false, false, false, false,
    true, false)), (String ((Ascii (true, false, true, false, false, false,
    true, false)), (String ((Ascii (true, false, false, true, false, false,
    true, false)), (String ((Ascii (false, false, true, false, false, false,
    true, false)), (String ((Ascii (true, true, true, true, false, false,
    true, false)), (String ((Ascii (true, false, true, false, true, false,
    true, false)), EmptyString)))))))))))), (Zpos (XI (XO XH)))) :: (((String
    ((Ascii (true, false, false, false, true, false, true, false)), (String
    ((Ascii (false, true, false, true, true, false, true, false)), (String
    ((Ascii (true, true, false, false, true, false, true, false)), (String
    ((Ascii (true, true, false, false, true, false, true, false)),
    EmptyString)))))))), (Zpos (XO (XI XH)))) :: (((String ((Ascii (true,
    false, true, true, false, false, true, false)), (String ((Ascii (true,
    false, false, true, false, false, true, false)), (String ((Ascii (false,
    false, false, true, true, false, true, false)), (String ((Ascii (true,
    false, true, false, false, false, true, false)), (String ((Ascii (false,
    false, true, false, false, false, true, false)), EmptyString)))))))))),
    (Zpos (XI (XI XH)))) :: (((String ((Ascii (true, true, false, false,
    true, false, true, false)), (String ((Ascii (false, true, false, false,
    false, false, true, false)), (String ((Ascii (true, false, false, false,
    false, false, true, false)), (String ((Ascii (true, true, false, false,
    true, false, true, false)), EmptyString)))))))), (Zpos (XO (XO (XO
    XH))))) :: (((String ((Ascii (true, false, false, true, false, false,
    true, false)), (String ((Ascii (false, true, false, false, true, false,
    true, false)), (String ((Ascii (false, true, true, true, false, false,
    true, false)), (String ((Ascii (true, true, false, false, true, false,
    true, false)), (String ((Ascii (true, true, false, false, true, false,
    true, false)), EmptyString)))))))))), (Zpos (XI (XO (XO
    XH))))) :: []))))))))))) :: (((String ((Ascii (false, true, true, false,
    false, true, true, false)), (String ((Ascii (true, false, true, false,
    true, true, true, false)), (String ((Ascii (true, true, false, false,
    true, true, true, false)), (String ((Ascii (true, false, false, true,
    false, true, true, false)), (String ((Ascii (true, true, true, true,
    false, true, true, false)), (String ((Ascii (false, true, true, true,
    false, true, true, false)), (String ((Ascii (true, true, true, true,
    true, false, true, false)), (String ((Ascii (true, false, true, false,
    false, true, true, false)), (String ((Ascii (false, true, true, true,
    false, true, true, false)), (String ((Ascii (true, true, true, false,
    false, true, true, false)), (String ((Ascii (true, false, false, true,
    false, true, true, false)), (String ((Ascii (false, true, true, true,
    false, true, true, false)), (String ((Ascii (true, false, true, false,
    false, true, true, false)), (String ((Ascii (true, true, true, true,
    true, false, true, false)), (String ((Ascii (true, true, false, false,
    false, true, true, false)), (String ((Ascii (false, false, true, true,
    false, true, true, false)), (String ((Ascii (true, false, false, true,
    false, true, true, false)), (String ((Ascii (true, false, true, false,
    false, true, true, false)), (String ((Ascii (false, true, true, true,
    false, true, true, false)), (String ((Ascii (false, false, true, false,
    true, true, true, false)), (String ((Ascii (false, true, true, true,
    false, true, false, false)), (String ((Ascii (true, false, true, true,
    false, true, true, false)), (String ((Ascii (true, false, true, false,
    false, true, true, false)), (String ((Ascii (true, true, false, false,
    true, true, true, false)), (String ((Ascii (true, true, false, false,
    true, true, true, false)), (String ((Ascii (true, false, false, false,
    false, true, true, false)), (String ((Ascii (true, true, true, false,
    false, true, true, false)), (String ((Ascii (true, false, true, false,
    false, true, true, false)), (String ((Ascii (true, true, false, false,
    true, true, true, false)), (String ((Ascii (false, true, true, true,
    false, true, false, false)), (String ((Ascii (true, true, false, false,
    true, true, true, false)), (String ((Ascii (true, false, false, true,
    false, true, true, false)), (String ((Ascii (true, true, true, false,
    false, true, true, false)), (String ((Ascii (false, true, true, true,
    false, true, true, false)), (String ((Ascii (true, false, false, false,
    false, true, true, false)), (String ((Ascii (false, false, true, true,
    false, true, true, false)), (String ((Ascii (true, true, true, true,
    true, false, true, false)), (String ((Ascii (false, false, true, false,
    false, true, true, false)), (String ((Ascii (true, false, true, false,
    false, true, true, false)), (String ((Ascii (false, true, true, false,
    false, true, true, false)), (String ((Ascii (true, true, false, false,
    true, true, true, false)), (String ((Ascii (false, true, false, true,
    true, true, false, false)), (String ((Ascii (true, true, false, false,
    true, false, true, false)), (String ((Ascii (true, false, false, false,
    false, true, true, false)), (String ((Ascii (false, false, true, false,
    true, true, true, false)), (String ((Ascii (true, false, true, false,
    false, true, true, false)), (String ((Ascii (false, false, true, true,
    false, true, true, false)), (String ((Ascii (false, false, true, true,
    false, true, true, false)), (String ((Ascii (true, false, false, true,
    false, true, true, false)), (String ((Ascii (false, false, true, false,
    true, true, true, false)), (String ((Ascii (true, false, true, false,
    false, true, true, false)), (String ((Ascii (false, false, true, false,
    true, false, true, false)), (String ((Ascii (true, false, false, true,
    true, true, true, false)), (String ((Ascii (false, false, false, false,
    true, true, true, false)), (String ((Ascii (true, false, true, false,
    false, true, true, false)), (String ((Ascii (true, false, true, true,
    false, false, true, false)), (String ((Ascii (true, false, false, false,
    false, true, true, false)), (String ((Ascii (true, true, false, false,
    true, true, true, false)), (String ((Ascii (true, true, false, true,
    false, true, true, false)),
    EmptyString)))))))))))))))))))))))))))))))))))))))))))))))))))))))))))))))))))))))))))))))))))))))))))))))))))))))))))))))))))))),
    (((String ((Ascii (true, false, false, false, false, false, true,
    false)), (String ((Ascii (false, false, true, true, false, false, true,
    false)), (String ((Ascii (false, false, true, true, false, false, true,
    false)), EmptyString)))))), (Zpos (XI (XI (XI (XI (XI (XI (XI (XI (XI (XI
    (XI (XI (XI (XI (XI (XI (XI (XI (XI (XI (XI (XI (XI (XI (XI (XI (XI (XI
    (XI (XI (XI XH))))))))))))))))))))))))))))))))) :: (((String ((Ascii
    (false, true, false, false, false, false, true, false)), (String ((Ascii
    (true, false, true, false, false, false, true, false)), (String ((Ascii
    (true, false, false, true, false, false, true, false)), (String ((Ascii
    (false, false, true, false, false, false, true, false)), (String ((Ascii
    (true, true, true, true, false, false, true, false)), (String ((Ascii
    (true, false, true, false, true, false, true, false)),
    EmptyString)))))))))))), (Zpos (XO (XO (XO (XO (XO XH))))))) :: (((String
    ((Ascii (true, true, true, false, false, false, true, false)), (String
    ((Ascii (true, false, false, false, false, false, true, false)), (String
    ((Ascii (false, false, true, true, false, false, true, false)), (String
    ((Ascii (true, false, false, true, false, false, true, false)), (String
    ((Ascii (false, false, true, true, false, false, true, false)), (String
    ((Ascii (true, false, true, false, false, false, true, false)), (String
    ((Ascii (true, true, true, true, false, false, true, false)),
    EmptyString)))))))))))))), (Zpos (XO (XO (XO (XO XH)))))) :: (((String
    ((Ascii (true, true, true, false, false, false, true, false)), (String
    ((Ascii (false, false, true, true, false, false, true, false)), (String
    ((Ascii (true, true, true, true, false, false, true, false)), (String
    ((Ascii (false, true, true, true, false, false, true, false)), (String
    ((Ascii (true, false, false, false, false, false, true, false)), (String
    ((Ascii (true, true, false, false, true, false, true, false)), (String
    ((Ascii (true, true, false, false, true, false, true, false)),
    EmptyString)))))))))))))), (Zpos (XO (XO XH)))) :: (((String ((Ascii
    (true, true, true, false, false, false, true, false)), (String ((Ascii
    (false, false, false, false, true, false, true, false)), (String ((Ascii
    (true, true, false, false, true, false, true, false)), EmptyString)))))),
    (Zpos (XO XH))) :: (((String ((Ascii (true, false, false, true, false,
    false, true, false)), (String ((Ascii (false, true, false, false, true,
    false, true, false)), (String ((Ascii (false, true, true, true, false,
    false, true, false)), (String ((Ascii (true, true, false, false, true,
    false, true, false)), (String ((Ascii (true, true, false, false, true,
    false, true, false)), EmptyString)))))))))), (Zpos (XO (XO (XO (XO (XO
    (XO (XO (XO (XO XH))))))))))) :: (((String ((Ascii (false, false, true,
    true, false, false, true, false)), (String ((Ascii (true, false, true,
    false, false, false, true, false)), (String ((Ascii (true, true, true,
    true, false, false, true, false)), EmptyString)))))), (Zpos (XO (XO (XO
    XH))))) :: (((String ((Ascii (true, false, true, true, false, false,
    true, false)), (String ((Ascii (true, false, false, true, false, false,
    true, false)), (String ((Ascii (false, false, false, true, true, false,
    true, false)), (String ((Ascii (true, false, true, false, false, false,
    true, false)), (String ((Ascii (false, false, true, false, false, false,
    true, false)), EmptyString)))))))))), (Zpos (XO (XO (XO (XO (XO (XO (XO
    XH))))))))) :: (((String ((Ascii (true, false, false, false, true, false,
    true, false)), (String ((Ascii (false, true, false, true, true, false,
    true, false)), (String ((Ascii (true, true, false, false, true, false,
    true, false)), (String ((Ascii (true, true, false, false, true, false,
    true, false)), EmptyString)))))))), (Zpos (XO (XO (XO (XO (XO (XO
    XH)))))))) :: (((String ((Ascii (true, true, false, false, true, false,
    true, false)), (String ((Ascii (false, true, false, false, false, false,
    true, false)), (String ((Ascii (true, false, false, false, false, false,
    true, false)), (String ((Ascii (true, true, false, false, true, false,
    true, false)), EmptyString)))))))), (Zpos (XO (XO (XO (XO (XO (XO (XO (XO
    XH)))))))))) :: (((String ((Ascii (true, false, true, false, true, false,
    true, false)), (String ((Ascii (false, true, true, true, false, false,
    true, false)), (String ((Ascii (true, true, false, true, false, false,
    true, false)), (String ((Ascii (false, true, true, true, false, false,
    true, false)), (String ((Ascii (true, true, true, true, false, false,
    true, false)), (String ((Ascii (true, true, true, false, true, false,
    true, false)), (String ((Ascii (false, true, true, true, false, false,
    true, false)), EmptyString)))))))))))))), (Zpos
    XH)) :: [])))))))))))) :: (((String ((Ascii (false, true, true, false,
    false, true, true, false)), (String ((Ascii (true, false, true, false,
    true, true, true, false)), (String ((Ascii (true, true, false, false,
    true, true, true, false)), (String ((Ascii (true, false, false, true,
    false, true, true, false)), (String ((Ascii (true, true, true, true,
    false, true, true, false)), (String ((Ascii (false, true, true, true,
    false, true, true, false)), (String ((Ascii (true, true, true, true,
    true, false, true, false)), (String ((Ascii (true, false, true, false,
    false, true, true, false)), (String ((Ascii (false, true, true, true,
    false, true, true, false)), (String ((Ascii (true, true, true, false,
    false, true, true, false)), (String ((Ascii (true, false, false, true,
    false, true, true, false)), (String ((Ascii (false, true, true, true,
    false, true, true, false)), (String ((Ascii (true, false, true, false,
    false, true, true, false)), (String ((Ascii (true, true, true, true,
    true, false, true, false)), (String ((Ascii (true, true, false, false,
    false, true, true, false)), (String ((Ascii (false, false, true, true,
    false, true, true, false)), (String ((Ascii (true, false, false, true,
    false, true, true, false)), (String ((Ascii (true, false, true, false,
    false, true, true, false)), (String ((Ascii (false, true, true, true,
    false, true, true, false)), (String ((Ascii (false, false, true, false,
    true, true, true, false)), (String ((Ascii (false, true, true, true,
    false, true, false, false)), (String ((Ascii (true, false, true, true,
    false, true, true, false)), (String ((Ascii (true, false, true, false,
    false, true, true, false)), (String ((Ascii (true, true, false, false,
    true, true, true, false)), (String ((Ascii (true, true, false, false,
    true, true, true, false)), (String ((Ascii (true, false, false, false,
    false, true, true, false)), (String ((Ascii (true, true, true, false,
    false, true, true, false)), (String ((Ascii (true, false, true, false,
    false, true, true, false)), (String ((Ascii (true, true, false, false,
    true, true, true, false)), (String ((Ascii (false, true, true, true,
    false, true, false, false)), (String ((Ascii (true, true, false, false,
    true, true, true, false)), (String ((Ascii (true, false, false, true,
    false, true, true, false)), (String ((Ascii (true, true, true, false,
    false, true, true, false)), (String ((Ascii (false, true, true, true,
    false, true, true, false)), (String ((Ascii (true, false, false, false,
    false, true, true, false)), (String ((Ascii (false, false, true, true,
    false, true, true, false)), (String ((Ascii (true, true, true, true,
    true, false, true, false)), (String ((Ascii (false, false, true, false,
    false, true, true, false)), (String ((Ascii (true, false, true, false,
    false, true, true, false)), (String ((Ascii (false, true, true, false,
    false, true, true, false)), (String ((Ascii (true, true, false, false,
    true, true, true, false)), (String ((Ascii (false, true, false, true,
    true, true, false, false)), (String ((Ascii (true, true, false, false,
    true, false, true, false)), (String ((Ascii (true, false, false, true,
    false, true, true, false)), (String ((Ascii (true, true, true, false,
    false, true, true, false)), (String ((Ascii (false, true, true, true,
    false, true, true, false)), (String ((Ascii (true, false, false, false,
    false, true, true, false)), (String ((Ascii (false, false, true, true,
    false, true, true, false)), (String ((Ascii (false, false, true, false,
    true, false, true, false)), (String ((Ascii (true, false, false, true,
    true, true, true, false)), (String ((Ascii (false, false, false, false,
    true, true, true, false)), (String ((Ascii (true, false, true, false,
    false, true, true, false)),
    EmptyString)))))))))))))))))))))))))))))))))))))))))))))))))))))))))))))))))))))))))))))))))))))))))))))))))))))))),
    (((String ((Ascii (true, false, true, false, true, false, true, false)),
    (String ((Ascii (false, true, true, true, false, false, true, false)),
    (String ((Ascii (true, true, false, true, false, false, true, false)),
    (String ((Ascii (false, true, true, true, false, false, true, false)),
    (String ((Ascii (true, true, true, true, false, false, true, false)),
    (String ((Ascii (true, true, true, false, true, false, true, false)),
    (String ((Ascii (false, true, true, true, false, false, true, false)),
    EmptyString)))))))))))))), Z0) :: [])) :: (((String ((Ascii (false, true,
    true, false, false, true, true, false)), (String ((Ascii (true, false,
    true, false, true, true, true, false)), (String ((Ascii (true, true,
    false, false, true, true, true, false)), (String ((Ascii (true, false,
    false, true, false, true, true, false)), (String ((Ascii (true, true,
    true, true, false, true, true, false)), (String ((Ascii (false, true,
    true, true, false, true, true, false)), (String ((Ascii (true, true,
    true, true, true, false, true, false)), (String ((Ascii (true, false,
    true, false, false, true, true, false)), (String ((Ascii (false, true,
    true, true, false, true, true, false)), (String ((Ascii (true, true,
    true, false, false, true, true, false)), (String ((Ascii (true, false,
    false, true, false, true, true, false)), (String ((Ascii (false, true,
    true, true, false, true, true, false)), (String ((Ascii (true, false,
    true, false, false, true, true, false)), (String ((Ascii (true, true,
    true, true, true, false, true, false)), (String ((Ascii (true, true,
    false, false, false, true, true, false)), (String ((Ascii (false, false,
    true, true, false, true, true, false)), (String ((Ascii (true, false,
    false, true, false, true, true, false)), (String ((Ascii (true, false,
    true, false, false, true, true, false)), (String ((Ascii (false, true,
    true, true, false, true, true, false)), (String ((Ascii (false, false,
    true, false, true, true, true, false)), (String ((Ascii (false, true,
    true, true, false, true, false, false)), (String ((Ascii (true, false,
    true, true, false, true, true, false)), (String ((Ascii (true, false,
    true, false, false, true, true, false)), (String ((Ascii (true, true,
    false, false, true, true, true, false)), (String ((Ascii (true, true,
    false, false, true, true, true, false)), (String ((Ascii (true, false,
    false, false, false, true, true, false)), (String ((Ascii (true, true,
    true, false, false, true, true, false)), (String ((Ascii (true, false,
    true, false, false, true, true, false)), (String ((Ascii (true, true,
    false, false, true, true, true, false)), (String ((Ascii (false, true,
    true, true, false, true, false, false)), (String ((Ascii (true, true,
    false, false, true, true, true, false)), (String ((Ascii (true, true,
    true, true, false, true, true, false)), (String ((Ascii (false, false,
    true, true, false, true, true, false)), (String ((Ascii (true, false,
    true, false, true, true, true, false)), (String ((Ascii (false, false,
    true, false, true, true, true, false)), (String ((Ascii (true, false,
    false, true, false, true, true, false)), (String ((Ascii (true, true,
    true, true, false, true, true, false)), (String ((Ascii (false, true,
    true, true, false, true, true, false)), (String ((Ascii (false, true,
    false, true, true, true, false, false)), (String ((Ascii (true, true,
    false, false, false, false, true, false)), (String ((Ascii (true, false,
    false, false, false, true, true, false)), (String ((Ascii (false, false,
    true, true, false, true, true, false)), (String ((Ascii (true, false,
    false, true, false, true, true, false)), (String ((Ascii (false, true,
    false, false, false, true, true, false)), (String ((Ascii (false, true,
    false, false, true, true, true, false)), (String ((Ascii (true, false,
    false, false, false, true, true, false)), (String ((Ascii (false, false,
    true, false, true, true, true, false)), (String ((Ascii (true, false,
    false, true, false, true, true, false)), (String ((Ascii (true, true,
    true, true, false, true, true, false)), (String ((Ascii (false, true,
    true, true, false, true, true, false)), (String ((Ascii (true, true,
    false, false, true, false, true, false)), (String ((Ascii (false, false,
    true, false, true, true, true, false)), (String ((Ascii (true, false,
    false, false, false, true, true, false)), (String ((Ascii (true, true,
    true, false, false, true, true, false)), (String ((Ascii (true, false,
    true, false, false, true, true, false)),
    EmptyString)))))))))))))))))))))))))))))))))))))))))))))))))))))))))))))))))))))))))))))))))))))))))))))))))))))))))))))),
    (((String ((Ascii (true, false, true, false, true, false, true, false)),
    (String ((Ascii (false, true, true, true, false, false, true, false)),
    (String ((Ascii (true, true, false, true, false, false, true, false)),
    (String ((Ascii (false, true, true, true, false, false, true, false)),
    (String ((Ascii (true, true, true, true, false, false, true, false)),
    (String ((Ascii (true, true, true, false, true, false, true, false)),
    (String ((Ascii (false, true, true, true, false, false, true, false)),
    EmptyString)))))))))))))), Z0) :: (((String ((Ascii (true, false, true,
    true, false, false, true, false)), (String ((Ascii (true, true, true,
    true, false, false, true, false)), (String ((Ascii (true, false, true,
    false, true, false, true, false)), (String ((Ascii (false, true, true,
    true, false, false, true, false)), (String ((Ascii (false, false, true,
    false, true, false, true, false)), (String ((Ascii (true, false, false,
    true, false, false, true, false)), (String ((Ascii (false, true, true,
    true, false, false, true, false)), (String ((Ascii (true, true, true,
    false, false, false, true, false)), (String ((Ascii (true, true, true,
    true, true, false, true, false)), (String ((Ascii (true, false, false,
    false, false, false, true, false)), (String ((Ascii (false, true, true,
    true, false, false, true, false)), (String ((Ascii (true, true, true,
    false, false, false, true, false)), (String ((Ascii (false, false, true,
    true, false, false, true, false)), (String ((Ascii (true, false, true,
    false, false, false, true, false)),
    EmptyString)))))))))))))))))))))))))))), (Zpos XH)) :: (((String ((Ascii
    (false, false, true, false, false, false, true, false)), (String ((Ascii
    (true, true, true, true, false, false, true, false)), (String ((Ascii
    (false, true, true, true, false, false, true, false)), (String ((Ascii
    (true, false, true, false, false, false, true, false)),
    EmptyString)))))))), (Zpos (XI (XI (XI (XI (XI (XI (XI
    XH))))))))) :: [])))) :: (((String ((Ascii (false, true, true, false,
    false, true, true, false)), (String ((Ascii (true, false, true, false,
    true, true, true, false)), (String ((Ascii (true, true, false, false,
    true, true, true, false)), (String ((Ascii (true, false, false, true,
    false, true, true, false)), (String ((Ascii (true, true, true, true,
    false, true, true, false)), (String ((Ascii (false, true, true, true,
    false, true, true, false)), (String ((Ascii (true, true, true, true,
    true, false, true, false)), (String ((Ascii (true, false, true, false,
    false, true, true, false)), (String ((Ascii (false, true, true, true,
    false, true, true, false)), (String ((Ascii (true, true, true, false,
    false, true, true, false)), (String ((Ascii (true, false, false, true,
    false, true, true, false)), (String ((Ascii (false, true, true, true,
    false, true, true, false)), (String ((Ascii (true, false, true, false,
    false, true, true, false)), (String ((Ascii (true, true, true, true,
    true, false, true, false)), (String ((Ascii (true, true, false, false,
    false, true, true, false)), (String ((Ascii (false, false, true, true,
    false, true, true, false)), (String ((Ascii (true, false, false, true,
    false, true, true, false)), (String ((Ascii (true, false, true, false,
    false, true, true, false)), (String ((Ascii (false, true, true, true,
    false, true, true, false)), (String ((Ascii (false, false, true, false,
    true, true, true, false)), (String ((Ascii (false, true, true, true,
    false, true, false, false)), (String ((Ascii (false, false, false, false,
    true, true, true, false)), (String ((Ascii (true, false, false, false,
    false, true, true, false)), (String ((Ascii (false, true, false, false,
    true, true, true, false)), (String ((Ascii (true, true, false, false,
    true, true, true, false)), (String ((Ascii (true, false, true, false,
    false, true, true, false)), (String ((Ascii (false, true, false, false,
    true, true, true, false)), (String ((Ascii (true, true, false, false,
    true, true, true, false)), (String ((Ascii (false, true, true, true,
    false, true, false, false)), (String ((Ascii (false, false, true, false,
    false, true, true, false)), (String ((Ascii (true, false, true, false,
    false, true, true, false)), (String ((Ascii (true, true, false, false,
    false, true, true, false)), (String ((Ascii (true, true, true, true,
    false, true, true, false)), (String ((Ascii (false, false, true, false,
    false, true, true, false)), (String ((Ascii (true, false, true, false,
    false, true, true, false)), (String ((Ascii (false, true, false, false,
    true, true, true, false)), (String ((Ascii (false, true, false, true,
    true, true, false, false)), (String ((Ascii (false, true, true, false,
    false, false, true, false)), (String ((Ascii (true, false, true, false,
    true, true, true, false)), (String ((Ascii (true, true, false, false,
    true, true, true, false)), (String ((Ascii (true, false, false, true,
    false, true, true, false)), (String ((Ascii (true, true, true, true,
    false, true, true, false)), (String ((Ascii (false, true, true, true,
    false, true, true, false)), (String ((Ascii (true, false, true, false,
    false, false, true, false)), (String ((Ascii (false, true, true, true,
    false, true, true, false)), (String ((Ascii (true, true, true, false,
    false, true, true, false)), (String ((Ascii (true, false, false, true,
    false, true, true, false)), (String ((Ascii (false, true, true, true,
    false, true, true, false)), (String ((Ascii (true, false, true, false,
    false, true, true, false)), (String ((Ascii (false, false, true, false,
    false, false, true, false)), (String ((Ascii (true, false, true, false,
    false, true, true, false)), (String ((Ascii (true, true, false, false,
    false, true, true, false)), (String ((Ascii (true, true, true, true,
    false, true, true, false)), (String ((Ascii (false, false, true, false,
    false, true, true, false)), (String ((Ascii (true, false, true, false,
    false, true, true, false)), (String ((Ascii (false, true, false, false,
    true, true, true, false)), (String ((Ascii (false, true, true, true,
    false, true, false, false)), (String ((Ascii (true, true, true, false,
    true, false, true, false)), (String ((Ascii (true, false, false, false,
    false, true, true, false)), (String ((Ascii (false, true, false, false,
    true, true, true, false)), (String ((Ascii (false, true, true, true,
    false, true, true, false)), (String ((Ascii (true, true, true, true,
    false, false, true, false)), (String ((Ascii (false, true, true, true,
    false, true, true, false)), (String ((Ascii (true, false, true, false,
    false, false, true, false)), (String ((Ascii (false, true, false, false,
    true, true, true, false)), (String ((Ascii (false, true, false, false,
    true, true, true, false)), (String ((Ascii (true, true, true, true,
    false, true, true, false)), (String ((Ascii (false, true, false, false,
    true, true, true, false)),
    EmptyString)))))))))))))))))))))))))))))))))))))))))))))))))))))))))))))))))))))))))))))))))))))))))))))))))))))))))))))))))))))))))))))))))))))))),
    (((String ((Ascii (false, true, true, true, false, false, true, false)),
    (String ((Ascii (true, true, true, true, false, false, true, false)),
    (String ((Ascii (false, true, true, true, false, false, true, false)),
    (String ((Ascii (true, false, true, false, false, false, true, false)),
    EmptyString)))))))), Z0) :: (((String ((Ascii (false, false, true, true,
    false, false, true, false)), (String ((Ascii (true, false, false, true,
    false, false, true, false)), (String ((Ascii (true, true, false, true,
    false, false, true, false)), (String ((Ascii (true, false, true, false,
    false, false, true, false)), (String ((Ascii (false, false, true, true,
    false, false, true, false)), (String ((Ascii (true, false, false, true,
    true, false, true, false)), EmptyString)))))))))))), (Zpos
    XH)) :: (((String ((Ascii (true, false, false, false, false, false, true,
    false)), (String ((Ascii (false, false, true, true, false, false, true,
    false)), (String ((Ascii (false, false, true, true, false, false, true,
    false)), EmptyString)))))), (Zpos (XO
    XH))) :: [])))) :: [])))))))))))))))))))))))))))))))))))))))

(** val mask_tables :
    ((((string * string) * z) * (string * z) list) * (string * z) list) list **)

let mask_tables =
  (((((String ((Ascii (false, true, true, false, false, true, true, false)),
    (String ((Ascii (true, false, true, false, true, true, true, false)),
    (String ((Ascii (true, true, false, false, true, true, true, false)),
    (String ((Ascii (true, false, false, true, false, true, true, false)),
    (String ((Ascii (true, true, true, true, false, true, true, false)),
    (String ((Ascii (false, true, true, true, false, true, true, false)),
    (String ((Ascii (true, true, true, true, true, false, true, false)),
    (String ((Ascii (true, false, true, false, false, true, true, false)),
    (String ((Ascii (false, true, true, true, false, true, true, false)),
    (String ((Ascii (true, true, true, false, false, true, true, false)),
    (String ((Ascii (true, false, false, true, false, true, true, false)),
    (String ((Ascii (false, true, true, true, false, true, true, false)),
    (String ((Ascii (true, false, true, false, false, true, true, false)),
    (String ((Ascii (true, true, true, true, true, false, true, false)),
    (String ((Ascii (true, true, false, false, false, true, true, false)),
    (String ((Ascii (false, false, true, true, false, true, true, false)),
    (String ((Ascii (true, false, false, true, false, true, true, false)),
    (String ((Ascii (true, false, true, false, false, true, true, false)),
    (String ((Ascii (false, true, true, true, false, true, true, false)),
    (String ((Ascii (false, false, true, false, true, true, true, false)),
    (String ((Ascii (false, true, true, true, false, true, false, false)),
    (String ((Ascii (true, false, true, true, false, true, true, false)),
    (String ((Ascii (true, false, true, false, false, true, true, false)),
    (String ((Ascii (true, true, false, false, true, true, true, false)),
    (String ((Ascii (true, true, false, false, true, true, true, false)),
    (String ((Ascii (true, false, false, false, false, true, true, false)),
    (String ((Ascii (true, true, true, false, false, true, true, false)),
    (String ((Ascii (true, false, true, false, false, true, true, false)),
    (String ((Ascii (true, true, false, false, true, true, true, false)),
    (String ((Ascii (false, true, true, true, false, true, false, false)),
    (String ((Ascii (true, true, false, false, true, true, true, false)),
    (String ((Ascii (true, false, false, true, false, true, true, false)),
    (String ((Ascii (true, true, true, false, false, true, true, false)),
    (String ((Ascii (false, true, true, true, false, true, true, false)),
    (String ((Ascii (true, false, false, false, false, true, true, false)),
    (String ((Ascii (false, false, true, true, false, true, true, false)),
    (String ((Ascii (true, true, true, true, true, false, true, false)),
    (String ((Ascii (false, false, true, false, false, true, true, false)),
    (String ((Ascii (true, false, true, false, false, true, true, false)),
    (String ((Ascii (false, true, true, false, false, true, true, false)),
    (String ((Ascii (true, true, false, false, true, true, true, false)),
    (String ((Ascii (false, true, false, true, true, true, false, false)),
    (String ((Ascii (false, true, true, false, false, false, true, false)),
    (String ((Ascii (false, true, false, false, true, true, true, false)),
    (String ((Ascii (true, false, true, false, false, true, true, false)),
    (String ((Ascii (true, false, false, false, true, true, true, false)),
    (String ((Ascii (true, false, true, false, true, true, true, false)),
    (String ((Ascii (true, false, true, false, false, true, true, false)),
    (String ((Ascii (false, true, true, true, false, true, true, false)),
    (String ((Ascii (true, true, false, false, false, true, true, false)),
    (String ((Ascii (true, false, false, true, true, true, true, false)),
    (String ((Ascii (false, true, false, false, false, false, true, false)),
    (String ((Ascii (true, false, false, false, false, true, true, false)),
    (String ((Ascii (false, true, true, true, false, true, true, false)),
    (String ((Ascii (false, false, true, false, false, true, true, false)),
    (String ((Ascii (true, false, true, true, false, false, true, false)),
    (String ((Ascii (true, false, false, false, false, true, true, false)),
    (String ((Ascii (true, true, false, false, true, true, true, false)),
    (String ((Ascii (true, true, false, true, false, true, true, false)),
    EmptyString)))))))))))))))))))))))))))))))))))))))))))))))))))))))))))))))))))))))))))))))))))))))))))))))))))))))))))))))))))))),
    (String ((Ascii (false, true, true, false, false, true, true, false)),
    (String ((Ascii (true, false, true, false, true, true, true, false)),
    (String ((Ascii (true, true, false, false, true, true, true, false)),
    (String ((Ascii (true, false, false, true, false, true, true, false)),
    (String ((Ascii (true, true, true, true, false, true, true, false)),
    (String ((Ascii (false, true, true, true, false, true, true, false)),
    (String ((Ascii (true, true, true, true, true, false, true, false)),
    (String ((Ascii (true, false, true, false, false, true, true, false)),
    (String ((Ascii (false, true, true, true, false, true, true, false)),
    (String ((Ascii (true, true, true, false, false, true, true, false)),
    (String ((Ascii (true, false, false, true, false, true, true, false)),
    (String ((Ascii (false, true, true, true, false, true, true, false)),
    (String ((Ascii (true, false, true, false, false, true, true, false)),
    (String ((Ascii (true, true, true, true, true, false, true, false)),
    (String ((Ascii (true, true, false, false, false, true, true, false)),
    (String ((Ascii (false, false, true, true, false, true, true, false)),
    (String ((Ascii (true, false, false, true, false, true, true, false)),
    (String ((Ascii (true, false, true, false, false, true, true, false)),
    (String ((Ascii (false, true, true, true, false, true, true, false)),
    (String ((Ascii (false, false, true, false, true, true, true, false)),
    (String ((Ascii (false, true, true, true, false, true, false, false)),
    (String ((Ascii (true, false, true, true, false, true, true, false)),
    (String ((Ascii (true, false, true, false, false, true, true, false)),
    (String ((Ascii (true, true, false, false, true, true, true, false)),
    (String ((Ascii (true, true, false, false, true, true, true, false)),
    (String ((Ascii (true, false, false, false, false, true, true, false)),
    (String ((Ascii (true, true, true, false, false, true, true, false)),
    (String ((Ascii (true, false, true, false, false, true, true, false)),
    (String ((Ascii (true, true, false, false, true, true, true, false)),
    (String ((Ascii (false, true, true, true, false, true, false, false)),
    (String ((Ascii (true, true, false, false, true, true, true, false)),
    (String ((Ascii (true, false, false, true, false, true, true, false)),
    (String ((Ascii (true, true, true, false, false, true, true, false)),
    (String ((Ascii (false, true, true, true, false, true, true, false)),
    (String ((Ascii (true, false, false, false, false, true, true, false)),
    (String ((Ascii (false, false, true, true, false, true, true, false)),
    (String ((Ascii (true, true, true, true, true, false, true, false)),
    (String ((Ascii (false, false, true, false, false, true, true, false)),
    (String ((Ascii (true, false, true, false, false, true, true, false)),
    (String ((Ascii (false, true, true, false, false, true, true, false)),
    (String ((Ascii (true, true, false, false, true, true, true, false)),
    (String ((Ascii (false, true, false, true, true, true, false, false)),
    (String ((Ascii (false, true, true, false, false, false, true, false)),
    (String ((Ascii (false, true, false, false, true, true, true, false)),
    (String ((Ascii (true, false, true, false, false, true, true, false)),
    (String ((Ascii (true, false, false, false, true, true, true, false)),
    (String ((Ascii (true, false, true, false, true, true, true, false)),
    (String ((Ascii (true, false, true, false, false, true, true, false)),
    (String ((Ascii (false, true, true, true, false, true, true, false)),
    (String ((Ascii (true, true, false, false, false, true, true, false)),
    (String ((Ascii (true, false, false, true, true, true, true, false)),
    (String ((Ascii (false, true, false, false, false, false, true, false)),
    (String ((Ascii (true, false, false, false, false, true, true, false)),
    (String ((Ascii (false, true, true, true, false, true, true, false)),
    (String ((Ascii (false, false, true, false, false, true, true, false)),
    EmptyString))))))))))))))))))))))))))))))))))))))))))))))))))))))))))))))))))))))))))))))))))))))))))))))))))))))))))))))),
    Z0), (((String ((Ascii (true, false, false, false, false, false, true,
    false)), (String ((Ascii (false, false, true, true, false, false, true,
    false)), (String ((Ascii (false, false, true, true, false, false, true,
    false)), EmptyString)))))), (Zpos (XI (XI (XI (XI (XI (XI (XI (XI (XI (XI
    (XI (XI (XI (XI (XI (XI (XI (XI (XI (XI (XI (XI (XI (XI (XI (XI (XI (XI
    (XI (XI (XI XH))))))))))))))))))))))))))))))))) :: [])), (((String
    ((Ascii (true, false, true, false, true, false, true, false)), (String
    ((Ascii (false, true, true, true, false, false, true, false)), (String
    ((Ascii (true, true, false, true, false, false, true, false)), (String
    ((Ascii (false, true, true, true, false, false, true, false)), (String
    ((Ascii (true, true, true, true, false, false, true, false)), (String
    ((Ascii (true, true, true, false, true, false, true, false)), (String
    ((Ascii (false, true, true, true, false, false, true, false)),
    EmptyString)))))))))))))), Z0) :: (((String ((Ascii (false, false, true,
    true, false, false, true, false)), (String ((Ascii (true, false, false,
    false, true, true, false, false)), EmptyString)))), (Zpos
    XH)) :: (((String ((Ascii (false, false, true, true, false, false, true,
    false)), (String ((Ascii (false, true, false, false, true, true, false,
    false)), EmptyString)))), (Zpos (XO XH))) :: (((String ((Ascii (false,
    false, true, true, false, false, true, false)), (String ((Ascii (true,
    false, true, false, true, true, false, false)), EmptyString)))), (Zpos
    (XI (XO XH)))) :: (((String ((Ascii (false, false, true, true, false,
    false, true, false)), (String ((Ascii (false, true, true, false, true,
    true, false, false)), EmptyString)))), (Zpos (XO (XI
    XH)))) :: [])))))) :: ((((((String ((Ascii (false, true, true, false,
    false, true, true, false)), (String ((Ascii (true, false, true, false,
    true, true, true, false)), (String ((Ascii (true, true, false, false,
    true, true, true, false)), (String ((Ascii (true, false, false, true,
    false, true, true, false)), (String ((Ascii (true, true, true, true,
    false, true, true, false)), (String ((Ascii (false, true, true, true,
    false, true, true, false)), (String ((Ascii (true, true, true, true,
    true, false, true, false)), (String ((Ascii (true, false, true, false,
    false, true, true, false)), (String ((Ascii (false, true, true, true,
    false, true, true, false)), (String ((Ascii (true, true, true, false,
    false, true, true, false)), (String ((Ascii (true, false, false, true,
    false, true, true, false)), (String ((Ascii (false, true, true, true,
    false, true, true, false)), (String ((Ascii (true, false, true, false,
    false, true, true, false)), (String ((Ascii (true, true, true, true,
    true, false, true, false)), (String ((Ascii (true, true, false, false,
    false, true, true, false)), (String ((Ascii (false, false, true, true,
    false, true, true, false)), (String ((Ascii (true, false, false, true,
    false, true, true, false)), (String ((Ascii (true, false, true, false,
    false, true, true, false)), (String ((Ascii (false, true, true, true,
    false, true, true, false)), (String ((Ascii (false, false, true, false,
    true, true, true, false)), (String ((Ascii (false, true, true, true,
    false, true, false, false)), (String ((Ascii (true, false, true, true,
    false, true, true, false)), (String ((Ascii (true, false, true, false,
    false, true, true, false)), (String ((Ascii (true, true, false, false,
    true, true, true, false)), (String ((Ascii (true, true, false, false,
    true, true, true, false)), (String ((Ascii (true, false, false, false,
    false, true, true, false)), (String ((Ascii (true, true, true, false,
    false, true, true, false)), (String ((Ascii (true, false, true, false,
    false, true, true, false)), (String ((Ascii (true, true, false, false,
    true, true, true, false)), (String ((Ascii (false, true, true, true,
    false, true, false, false)), (String ((Ascii (true, true, false, false,
    true, true, true, false)), (String ((Ascii (true, false, false, true,
    false, true, true, false)), (String ((Ascii (true, true, true, false,
    false, true, true, false)), (String ((Ascii (false, true, true, true,
    false, true, true, false)), (String ((Ascii (true, false, false, false,
    false, true, true, false)), (String ((Ascii (false, false, true, true,
    false, true, true, false)), (String ((Ascii (true, true, true, true,
    true, false, true, false)), (String ((Ascii (false, false, true, false,
    false, true, true, false)), (String ((Ascii (true, false, true, false,
    false, true, true, false)), (String ((Ascii (false, true, true, false,
    false, true, true, false)), (String ((Ascii (true, true, false, false,
    true, true, true, false)), (String ((Ascii (false, true, false, true,
    true, true, false, false)), (String ((Ascii (true, true, false, false,
    true, false, true, false)), (String ((Ascii (true, false, false, false,
    false, true, true, false)), (String ((Ascii (false, false, true, false,
    true, true, true, false)), (String ((Ascii (true, false, true, false,
    false, true, true, false)), (String ((Ascii (false, false, true, true,
    false, true, true, false)), (String ((Ascii (false, false, true, true,
    false, true, true, false)), (String ((Ascii (true, false, false, true,
    false, true, true, false)), (String ((Ascii (false, false, true, false,
    true, true, true, false)), (String ((Ascii (true, false, true, false,
    false, true, true, false)), (String ((Ascii (false, false, true, false,
    true, false, true, false)), (String ((Ascii (true, false, false, true,
    true, true, true, false)), (String ((Ascii (false, false, false, false,
    true, true, true, false)), (String ((Ascii (true, false, true, false,
    false, true, true, false)), (String ((Ascii (true, false, true, true,
    false, false, true, false)), (String ((Ascii (true, false, false, false,
    false, true, true, false)), (String ((Ascii (true, true, false, false,
    true, true, true, false)), (String ((Ascii (true, true, false, true,
    false, true, true, false)),
    EmptyString)))))))))))))))))))))))))))))))))))))))))))))))))))))))))))))))))))))))))))))))))))))))))))))))))))))))))))))))))))))),
    (String ((Ascii (false, true, true, false, false, true, true, false)),
    (String ((Ascii (true, false, true, false, true, true, true, false)),
    (String ((Ascii (true, true, false, false, true, true, true, false)),
    (String ((Ascii (true, false, false, true, false, true, true, false)),
    (String ((Ascii (true, true, true, true, false, true, true, false)),
    (String ((Ascii (false, true, true, true, false, true, true, false)),
    (String ((Ascii (true, true, true, true, true, false, true, false)),
    (String ((Ascii (true, false, true, false, false, true, true, false)),
    (String ((Ascii (false, true, true, true, false, true, true, false)),
    (String ((Ascii (true, true, true, false, false, true, true, false)),
    (String ((Ascii (true, false, false, true, false, true, true, false)),
    (String ((Ascii (false, true, true, true, false, true, true, false)),
    (String ((Ascii (true, false, true, false, false, true, true, false)),
    (String ((Ascii (true, true, true, true, true, false, true, false)),
    (String ((Ascii (true, true, false, false, false, true, true, false)),
    (String ((Ascii (false, false, true, true, false, true, true, false)),
    (String ((Ascii (true, false, false, true, false, true, true, false)),
    (String ((Ascii (true, false, true, false, false, true, true, false)),
    (String ((Ascii (false, true, true, true, false, true, true, false)),
    (String ((Ascii (false, false, true, false, true, true, true, false)),
    (String ((Ascii (false, true, true, true, false, true, false, false)),
    (String ((Ascii (true, false, true, true, false, true, true, false)),
    (String ((Ascii (true, false, true, false, false, true, true, false)),
    (String ((Ascii (true, true, false, false, true, true, true, false)),
    (String ((Ascii (true, true, false, false, true, true, true, false)),
    (String ((Ascii (true, false, false, false, false, true, true, false)),
    (String ((Ascii (true, true, true, false, false, true, true, false)),
    (String ((Ascii (true, false, true, false, false, true, true, false)),
    (String ((Ascii (true, true, false, false, true, true, true, false)),
    (String ((Ascii (false, true, true, true, false, true, false, false)),
    (String ((Ascii (true, true, false, false, true, true, true, false)),
    (String ((Ascii (true, false, false, true, false, true, true, false)),
    (String ((Ascii (true, true, true, false, false, true, true, false)),
    (String ((Ascii (false, true, true, true, false, true, true, false)),
    (String ((Ascii (true, false, false, false, false, true, true, false)),
    (String ((Ascii (false, false, true, true, false, true, true, false)),
    (String ((Ascii (true, true, true, true, true, false, true, false)),
    (String ((Ascii (false, false, true, false, false, true, true, false)),
    (String ((Ascii (true, false, true, false, false, true, true, false)),
    (String ((Ascii (false, true, true, false, false, true, true, false)),
    (String ((Ascii (true, true, false, false, true, true, true, false)),
    (String ((Ascii (false, true, false, true, true, true, false, false)),
    (String ((Ascii (true, true, false, false, true, false, true, false)),
    (String ((Ascii (true, false, false, false, false, true, true, false)),
    (String ((Ascii (false, false, true, false, true, true, true, false)),
    (String ((Ascii (true, false, true, false, false, true, true, false)),
    (String ((Ascii (false, false, true, true, false, true, true, false)),
    (String ((Ascii (false, false, true, true, false, true, true, false)),
    (String ((Ascii (true, false, false, true, false, true, true, false)),
    (String ((Ascii (false, false, true, false, true, true, true, false)),
    (String ((Ascii (true, false, true, false, false, true, true, false)),
    (String ((Ascii (false, false, true, false, true, false, true, false)),
    (String ((Ascii (true, false, false, true, true, true, true, false)),
    (String ((Ascii (false, false, false, false, true, true, true, false)),
    (String ((Ascii (true, false, true, false, false, true, true, false)),
    EmptyString))))))))))))))))))))))))))))))))))))))))))))))))))))))))))))))))))))))))))))))))))))))))))))))))))))))))))))))),
    Z0), (((String ((Ascii (true, false, false, false, false, false, true,
    false)), (String ((Ascii (false, false, true, true, false, false, true,
    false)), (String ((Ascii (false, false, true, true, false, false, true,
    false)), EmptyString)))))), (Zpos (XI (XI (XI (XI (XI (XI (XI (XI (XI (XI
    (XI (XI (XI (XI (XI (XI (XI (XI (XI (XI (XI (XI (XI (XI (XI (XI (XI (XI
    (XI (XI (XI XH))))))))))))))))))))))))))))))))) :: [])), (((String
    ((Ascii (true, false, true, false, true, false, true, false)), (String
    ((Ascii (false, true, true, true, false, false, true, false)), (String
    ((Ascii (true, true, false, true, false, false, true, false)), (String
    ((Ascii (false, true, true, true, false, false, true, false)), (String
    ((Ascii (true, true, true, true, false, false, true, false)), (String
    ((Ascii (true, true, true, false, true, false, true, false)), (String
    ((Ascii (false, true, true, true, false, false, true, false)),
    EmptyString)))))))))))))), Z0) :: (((String ((Ascii (true, true, true,
    false, false, false, true, false)), (String ((Ascii (false, false, false,
    false, true, false, true, false)), (String ((Ascii (true, true, false,
    false, true, false, true, false)), EmptyString)))))), (Zpos
    XH)) :: (((String ((Ascii (true, true, true, false, false, false, true,
    false)), (String ((Ascii (false, false, true, true, false, false, true,
    false)), (String ((Ascii (true, true, true, true, false, false, true,
    false)), (String ((Ascii (false, true, true, true, false, false, true,
    false)), (String ((Ascii (true, false, false, false, false, false, true,
    false)), (String ((Ascii (true, true, false, false, true, false, true,
    false)), (String ((Ascii (true, true, false, false, true, false, true,
    false)), EmptyString)))))))))))))), (Zpos (XO XH))) :: (((String ((Ascii
    (false, false, true, true, false, false, true, false)), (String ((Ascii
    (true, false, true, false, false, false, true, false)), (String ((Ascii
    (true, true, true, true, false, false, true, false)), EmptyString)))))),
    (Zpos (XI XH))) :: (((String ((Ascii (true, true, true, false, false,
    false, true, false)), (String ((Ascii (true, false, false, false, false,
    false, true, false)), (String ((Ascii (false, false, true, true, false,
    false, true, false)), (String ((Ascii (true, false, false, true, false,
    false, true, false)), (String ((Ascii (false, false, true, true, false,
    false, true, false)), (String ((Ascii (true, false, true, false, false,
    false, true, false)), (String ((Ascii (true, true, true, true, false,
    false, true, false)), EmptyString)))))))))))))), (Zpos (XO (XO
    XH)))) :: (((String ((Ascii (false, true, false, false, false, false,
    true, false)), (String ((Ascii (true, false, true, false, false, false,
    true, false)), (String ((Ascii (true, false, false, true, false, false,
    true, false)), (String ((Ascii (false, false, true, false, false, false,
    true, false)), (String ((Ascii (true, true, true, true, false, false,
    true, false)), (String ((Ascii (true, false, true, false, true, false,
    true, false)), EmptyString)))))))))))), (Zpos (XI (XO XH)))) :: (((String
    ((Ascii (true, false, false, false, true, false, true, false)), (String
    ((Ascii (false, true, false, true, true, false, true, false)), (String
    ((Ascii (true, true, false, false, true, false, true, false)), (String
    ((Ascii (true, true, false, false, true, false, true, false)),
    EmptyString)))))))), (Zpos (XO (XI XH)))) :: (((String ((Ascii (true,
    false, true, true, false, false, true, false)), (String ((Ascii (true,
    false, false, true, false, false, true, false)), (String ((Ascii (false,
    false, false, true, true, false, true, false)), (String ((Ascii (true,
    false, true, false, false, false, true, false)), (String ((Ascii (false,
    false, true, false, false, false, true, false)), EmptyString)))))))))),
    (Zpos (XI (XI XH)))) :: (((String ((Ascii (true, true, false, false,
    true, false, true, false)), (String ((Ascii (false, true, false, false,
    false, false, true, false)), (String ((Ascii (true, false, false, false,
    false, false, true, false)), (String ((Ascii (true, true, false, false,
    true, false, true, false)), EmptyString)))))))), (Zpos (XO (XO (XO
    XH))))) :: (((String ((Ascii (true, false, false, true, false, false,
    true, false)), (String ((Ascii (false, true, false, false, true, false,
    true, false)), (String ((Ascii (false, true, true, true, false, false,
    true, false)), (String ((Ascii (true, true, false, false, true, false,
    true, false)), (String ((Ascii (true, true, false, false, true, false,
    true, false)), EmptyString)))))))))), (Zpos (XI (XO (XO
    XH))))) :: []))))))))))) :: [])

module NilEmpty =
 struct
  (** val string_of_uint : uint -> string **)

  let rec string_of_uint = function
  | Nil -> EmptyString
  | D0 d0 ->
    String ((Ascii (false, false, false, false, true, true, false, false)),
      (string_of_uint d0))
  | D1 d0 ->
    String ((Ascii (true, false, false, false, true, true, false, false)),
      (string_of_uint d0))
  | D2 d0 ->
    String ((Ascii (false, true, false, false, true, true, false, false)),
      (string_of_uint d0))
  | D3 d0 ->
    String ((Ascii (true, true, false, false, true, true, false, false)),
      (string_of_uint d0))
  | D4 d0 ->
    String ((Ascii (false, false, true, false, true, true, false, false)),
      (string_of_uint d0))
  | D5 d0 ->
    String ((Ascii (true, false, true, false, true, true, false, false)),
      (string_of_uint d0))
  | D6 d0 ->
    String ((Ascii (false, true, true, false, true, true, false, false)),
      (string_of_uint d0))
  | D7 d0 ->
    String ((Ascii (true, true, true, false, true, true, false, false)),
      (string_of_uint d0))
  | D8 d0 ->
    String ((Ascii (false, false, false, true, true, true, false, false)),
      (string_of_uint d0))
  | D9 d0 ->
    String ((Ascii (true, false, false, true, true, true, false, false)),
      (string_of_uint d0))
 end

module NilZero =
 struct
  (** val string_of_uint : uint -> string **)

  let string_of_uint d = match d with
  | Nil ->
    String ((Ascii (false, false, false, false, true, true, false, false)),
      EmptyString)
  | _ -> NilEmpty.string_of_uint d

  (** val string_of_int : signed_int -> string **)

  let string_of_int = function
  | Pos d0 -> string_of_uint d0
  | Neg d0 ->
    String ((Ascii (true, false, true, true, false, true, false, false)),
      (string_of_uint d0))
 end

type member = string * z

type err =
| ValueError
| KeyError
| TypeError
| AttributeError

(** val starts_with : string -> string -> bool **)

let rec starts_with p s =
  match p with
  | EmptyString -> true
  | String (a, p') ->
    (match s with
     | EmptyString -> false
     | String (b, s') -> (&&) (eqb0 a b) (starts_with p' s'))

(** val upper_ascii : ascii -> ascii **)

let upper_ascii c =
  let n0 = n_of_ascii c in
  if (&&) (N.leb (Npos (XI (XO (XO (XO (XO (XI XH))))))) n0)
       (N.leb n0 (Npos (XO (XI (XO (XI (XI (XI XH))))))))
  then ascii_of_N (N.sub n0 (Npos (XO (XO (XO (XO (XO XH)))))))
  else c

(** val lower_ascii : ascii -> ascii **)

let lower_ascii c =
  let n0 = n_of_ascii c in
  if (&&) (N.leb (Npos (XI (XO (XO (XO (XO (XO XH))))))) n0)
       (N.leb n0 (Npos (XO (XI (XO (XI (XI (XO XH))))))))
  then ascii_of_N (N.add n0 (Npos (XO (XO (XO (XO (XO XH)))))))
  else c

(** val smap : (ascii -> ascii) -> string -> string **)

let rec smap f = function
| EmptyString -> EmptyString
| String (c, t) -> String ((f c), (smap f t))

(** val upper : string -> string **)

let upper =
  smap upper_ascii

(** val lower : string -> string **)

let lower =
  smap lower_ascii

(** val dec : z -> string **)

let dec v =
  NilZero.string_of_int (Z.to_int v)

(** val hidden_name : z -> string **)

let hidden_name v =
  append unrecognized_prefix (append hidden_sep (dec v))

(** val is_hidden : member -> bool **)

let is_hidden m =
  starts_with unrecognized_prefix (fst m)

type enum_state = { defined : member list; extra : member list }

(** val init : member list -> enum_state **)

let init d =
  { defined = d; extra = [] }

(** val entries : enum_state -> member list **)

let entries st =
  app st.defined st.extra

(** val name_is : string -> member -> bool **)

let name_is s e =
  eqb1 (fst e) s

(** val value_is : z -> member -> bool **)

let value_is v e =
  Z.eqb (snd e) v

(** val by_value : member list -> z -> member option **)

let by_value l v =
  find (value_is v) l

(** val by_name : member list -> string -> member option **)

let by_name l s =
  match find (name_is s) l with
  | Some e -> by_value l (snd e)
  | None -> None

(** val canonical_from : z list -> member list -> member list **)

let rec canonical_from seen = function
| [] -> []
| e :: t ->
  if existsb (Z.eqb (snd e)) seen
  then canonical_from seen t
  else e :: (canonical_from ((snd e) :: seen) t)

(** val canonical : member list -> member list **)

let canonical l =
  canonical_from [] l

(** val extend_enum : enum_state -> string -> z -> (enum_state, err) sum **)

let extend_enum st name value =
  if existsb (name_is name) (entries st)
  then Inr TypeError
  else Inl { defined = st.defined; extra =
         (app st.extra ((name, value) :: [])) }

(** val super_call : enum_state -> z -> (member, err) sum **)

let super_call st v =
  match entries st with
  | [] -> Inr TypeError
  | _ :: _ ->
    (match by_value (entries st) v with
     | Some m -> Inl m
     | None -> Inr ValueError)

type outcome =
| OMember of member
| OErr of err
| OList of member list
| OLen of nat

(** val iter0 : enum_state -> member list **)

let iter0 st =
  filter (fun m -> negb (is_hidden m)) (canonical (entries st))

(** val len : enum_state -> nat **)

let len st =
  length (iter0 st)

(** val reversed : enum_state -> member list **)

let reversed st =
  filter (fun m -> negb (is_hidden m)) (rev0 (canonical (entries st)))

(** val reversed_legacy : enum_state -> member list **)

let reversed_legacy st =
  rev0 (canonical (entries st))

(** val call : enum_state -> z -> bool -> enum_state * outcome **)

let call st v strict =
  match super_call st v with
  | Inl m ->
    if (&&) strict (is_hidden m)
    then (st, (OErr ValueError))
    else (st, (OMember m))
  | Inr e ->
    (match e with
     | ValueError ->
       if strict
       then (st, (OErr ValueError))
       else (match extend_enum st (hidden_name v) v with
             | Inl st' ->
               (match super_call st' v with
                | Inl m -> (st', (OMember m))
                | Inr e0 -> (st', (OErr e0)))
             | Inr e0 -> (st, (OErr e0)))
     | _ -> (st, (OErr e)))

(** val from_string : enum_state -> string -> (member, err) sum **)

let from_string st s =
  match by_name (entries st) s with
  | Some m -> Inl m
  | None ->
    (match by_name (entries st) (upper s) with
     | Some m -> Inl m
     | None -> Inr KeyError)

(** val from_string_ci : enum_state -> string -> (member, err) sum **)

let from_string_ci st s =
  match find (fun e -> eqb1 (lower (fst e)) (lower s)) (rev0 (entries st)) with
  | Some e ->
    (match by_value (entries st) (snd e) with
     | Some m -> Inl m
     | None -> Inr KeyError)
  | None -> Inr KeyError

(** val unused_value : enum_state -> z option **)

let unused_value st =
  match iter0 st with
  | [] -> None
  | m0 :: ms ->
    Some (Z.sub (Z.min (fold_left Z.min (map snd ms) (snd m0)) Z0) (Zpos XH))

(** val call_name : enum_state -> string -> bool -> enum_state * outcome **)

let call_name st s strict =
  match from_string st s with
  | Inl m ->
    if (&&) strict (is_hidden m)
    then (st, (OErr KeyError))
    else (st, (OMember m))
  | Inr _ ->
    if strict
    then (st, (OErr KeyError))
    else (match unused_value st with
          | Some u ->
            (match extend_enum st s u with
             | Inl st' ->
               (match from_string st' s with
                | Inl m -> (st', (OMember m))
                | Inr e -> (st', (OErr e)))
             | Inr e -> (st, (OErr e)))
          | None -> (st, (OErr ValueError)))

(** val of_result :
    enum_state -> (member, err) sum -> enum_state * outcome **)

let of_result st = function
| Inl m -> (st, (OMember m))
| Inr e -> (st, (OErr e))

(** val getitem_name : enum_state -> string -> enum_state * outcome **)

let getitem_name st s =
  of_result st (from_string st s)

(** val getitem_int : enum_state -> z -> enum_state * outcome **)

let getitem_int st v =
  call st v true

type op =
| OpCall of z * bool
| OpCallName of string * bool
| OpGetName of string
| OpGetInt of z
| OpFromStringCI of string
| OpIter
| OpLen
| OpReversed
| OpIterDuring of z list
| OpReversedDuring of z list

(** val call_all : enum_state -> z list -> enum_state **)

let call_all st vs =
  fold_left (fun s v -> fst (call s v false)) vs st

(** val step : enum_state -> op -> enum_state * outcome **)

let step st = function
| OpCall (v, strict) -> call st v strict
| OpCallName (s, strict) -> call_name st s strict
| OpGetName s -> getitem_name st s
| OpGetInt v -> getitem_int st v
| OpFromStringCI s -> of_result st (from_string_ci st s)
| OpIter -> (st, (OList (iter0 st)))
| OpLen -> (st, (OLen (len st)))
| OpReversed -> (st, (OList (reversed st)))
| OpIterDuring vs -> let st1 = call_all st vs in (st1, (OList (iter0 st1)))
| OpReversedDuring vs ->
  let st1 = call_all st vs in (st1, (OList (reversed st)))

type sout =
| SMember of string * z
| SUnrecognised of z
| SRefused
| SList of member list
| SLen of nat

(** val spec_value : member list -> z -> bool -> sout **)

let spec_value d v strict =
  match by_value d v with
  | Some m -> SMember ((fst m), v)
  | None -> if strict then SRefused else SUnrecognised v

(** val spec_name : member list -> string -> sout **)

let spec_name d s =
  match by_name d s with
  | Some m -> SMember ((fst m), (snd m))
  | None ->
    (match by_name d (upper s) with
     | Some m -> SMember ((fst m), (snd m))
     | None -> SRefused)

(** val spec_name_ci : member list -> string -> sout **)

let spec_name_ci d s =
  match find (fun e -> eqb1 (lower (fst e)) (lower s)) (rev0 d) with
  | Some e ->
    (match by_value d (snd e) with
     | Some m -> SMember ((fst m), (snd m))
     | None -> SRefused)
  | None -> SRefused

(** val spec : member list -> op -> sout **)

let spec d = function
| OpCall (v, strict) -> spec_value d v strict
| OpCallName (s, _) -> spec_name d s
| OpGetName s -> spec_name d s
| OpGetInt v -> spec_value d v true
| OpFromStringCI s -> spec_name_ci d s
| OpIter -> SList (canonical d)
| OpLen -> SLen (length (canonical d))
| OpIterDuring _ -> SList (canonical d)
| _ -> SList (rev0 (canonical d))

(** val abstract : outcome -> sout **)

let abstract = function
| OMember m ->
  if is_hidden m then SUnrecognised (snd m) else SMember ((fst m), (snd m))
| OErr _ -> SRefused
| OList l -> SList l
| OLen n0 -> SLen n0

(** val hidden_ns : string -> bool **)

let hidden_ns s =
  (||) (starts_with unrecognized_prefix s)
    (starts_with unrecognized_prefix (upper s))

(** val hidden_ns_ci : string -> bool **)

let hidden_ns_ci s =
  starts_with (lower unrecognized_prefix) (lower s)

(** val allowed : member list -> op -> bool **)

let allowed d = function
| OpCallName (s, strict) ->
  if strict
  then true
  else (match from_string (init d) s with
        | Inl _ -> true
        | Inr _ -> false)
| OpGetName s -> negb (hidden_ns s)
| OpFromStringCI s -> negb (hidden_ns_ci s)
| _ -> true

(** val table_ok : member list -> bool **)

let table_ok d = match d with
| [] -> false
| _ :: _ ->
  forallb (fun e -> negb (starts_with unrecognized_prefix (fst e))) d

(** val prefix_ok : bool **)

let prefix_ok =
  eqb1 (upper unrecognized_prefix) unrecognized_prefix

type mask_cls = { m_offset : z; m_values : member list;
                  m_entries : member list }

(** val bit_of : z -> z -> (z, err) sum **)

let bit_of off v =
  if Z.ltb (Z.sub v off) Z0
  then Inr ValueError
  else Inl (Z.shiftl (Zpos XH) (Z.sub v off))

type item =
| IVal of z
| IName of string

(** val to_bitmask_step : mask_cls -> (z, err) sum -> item -> (z, err) sum **)

let to_bitmask_step m acc it =
  match acc with
  | Inl mask0 ->
    (match it with
     | IVal v ->
       (match bit_of m.m_offset v with
        | Inl b -> Inl (Z.coq_lor mask0 b)
        | Inr e -> Inr e)
     | IName s ->
       (match by_name m.m_entries (upper s) with
        | Some e -> Inl (Z.coq_lor mask0 (snd e))
        | None -> Inr AttributeError))
  | Inr e -> Inr e

(** val to_bitmask : mask_cls -> item list -> (z, err) sum **)

let to_bitmask m items =
  fold_left (to_bitmask_step m) items (Inl Z0)

(** val to_values_from : z -> z -> member list -> (member list, err) sum **)

let rec to_values_from off mask0 = function
| [] -> Inl []
| e :: t ->
  (match bit_of off (snd e) with
   | Inl b ->
     (match to_values_from off mask0 t with
      | Inl r -> Inl (if Z.eqb (Z.coq_land mask0 b) Z0 then r else e :: r)
      | Inr er -> Inr er)
   | Inr er -> Inr er)

(** val to_values : mask_cls -> z -> (member list, err) sum **)

let to_values m mask0 =
  to_values_from m.m_offset mask0 m.m_values

(** val name_leb : member -> member -> bool **)

let name_leb a b =
  match compare1 (fst a) (fst b) with
  | Gt -> false
  | _ -> true

(** val insert_by_name : member -> member list -> member list **)

let rec insert_by_name e l = match l with
| [] -> e :: []
| h :: t -> if name_leb e h then e :: l else h :: (insert_by_name e t)

(** val sort_by_name : member list -> member list **)

let sort_by_name l =
  fold_right insert_by_name [] l

(** val is_enum_entry : member -> bool **)

let is_enum_entry e =
  (&&) (negb (existsb (eqb1 (fst e)) enum_internals))
    (negb
      (starts_with (String ((Ascii (true, true, true, true, true, false,
        true, false)), EmptyString)) (fst e)))

(** val extend_list :
    (member list, err) sum -> string -> z -> (member list, err) sum **)

let extend_list acc name value =
  match acc with
  | Inl l ->
    if existsb (name_is name) l
    then Inr TypeError
    else Inl (app l ((name, value) :: []))
  | Inr e -> Inr e

(** val make_mask :
    enum_state -> z -> bool -> (member -> bool) -> member list -> (mask_cls,
    err) sum **)

let make_mask st off define_bits pred base =
  let values = filter pred (iter0 st) in
  let ents0 =
    fold_left (fun acc e ->
      if is_enum_entry e then extend_list acc (fst e) (snd e) else acc)
      (sort_by_name base) (Inl [])
  in
  let ents1 =
    if define_bits
    then fold_left (fun acc e ->
           match acc with
           | Inl _ ->
             if (&&) (is_enum_entry e) (pred e)
             then (match bit_of off (snd e) with
                   | Inl b -> extend_list acc (fst e) b
                   | Inr er -> Inr er)
             else acc
           | Inr er -> Inr er) (sort_by_name (canonical (entries st))) ents0
    else ents0
  in
  (match ents1 with
   | Inl ents -> Inl { m_offset = off; m_values = values; m_entries = ents }
   | Inr e -> Inr e)

(** val spec_roundtrip : member list -> z list -> member list **)

let spec_roundtrip members s =
  filter (fun m -> existsb (Z.eqb (snd m)) s) members

(** val item_selects : member -> item -> bool **)

let item_selects m = function
| IVal v -> Z.eqb (snd m) v
| IName s -> eqb1 (fst m) (upper s)

(** val spec_roundtrip_items : member list -> item list -> member list **)

let spec_roundtrip_items members items =
  filter (fun m -> existsb (item_selects m) items) members

(** val roundtrip : mask_cls -> item list -> (member list, err) sum **)

let roundtrip m items =
  match to_bitmask m items with
  | Inl z0 -> to_values m z0
  | Inr e -> Inr e

(** val nodupb : ('a1 -> 'a1 -> bool) -> 'a1 list -> bool **)

let rec nodupb eqb2 = function
| [] -> true
| a :: t -> (&&) (negb (existsb (eqb2 a) t)) (nodupb eqb2 t)

(** val name_bit_ok : mask_cls -> member -> bool **)

let name_bit_ok m e =
  match by_name m.m_entries (fst e) with
  | Some x ->
    (match bit_of m.m_offset (snd e) with
     | Inl b -> Z.eqb (snd x) b
     | Inr _ -> false)
  | None -> false

(** val item_ok : mask_cls -> item -> bool **)

let item_ok m = function
| IVal v -> Z.leb m.m_offset v
| IName s ->
  existsb (fun e -> (&&) (eqb1 (fst e) (upper s)) (name_bit_ok m e))
    m.m_values

(** val rt_pre : mask_cls -> item list -> bool **)

let rt_pre m items =
  (&&)
    ((&&)
      ((&&) (forallb (fun e -> Z.leb m.m_offset (snd e)) m.m_values)
        (forallb (item_ok m) items)) (nodupb Z.eqb (map snd m.m_values)))
    (nodupb eqb1 (map fst m.m_values))

(** val table_of : string -> member list option **)

let table_of name =
  match find (fun t -> eqb1 (fst t) name) enum_tables with
  | Some t -> Some (snd t)
  | None -> None

(** val real_mask : string -> (mask_cls, err) sum option **)

let real_mask name =
  match find (fun t -> eqb1 (fst (fst (fst (fst t)))) name) mask_tables with
  | Some p ->
    let (p0, _) = p in
    let (p1, base) = p0 in
    let (p2, off) = p1 in
    let (_, en) = p2 in
    (match table_of en with
     | Some t -> Some (make_mask (init t) off true (fun _ -> true) base)
     | None -> None)
  | None -> None

(** val real_mask_enum : string -> string option **)

let real_mask_enum name =
  match find (fun t -> eqb1 (fst (fst (fst (fst t)))) name) mask_tables with
  | Some p ->
    let (p0, _) = p in
    let (p1, _) = p0 in let (p2, _) = p1 in let (_, en) = p2 in Some en
  | None -> None
