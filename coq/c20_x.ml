
(** val negb : bool -> bool **)

let negb = function
| true -> false
| false -> true

type nat =
| O
| S of nat

(** val fst : ('a1 * 'a2) -> 'a1 **)

let fst = function
| (x, _) -> x

(** val snd : ('a1 * 'a2) -> 'a2 **)

let snd = function
| (_, y) -> y

(** val length : 'a1 list -> nat **)

let rec length = function
| [] -> O
| _ :: l' -> S (length l')

(** val app : 'a1 list -> 'a1 list -> 'a1 list **)

let rec app l m =
  match l with
  | [] -> m
  | a :: l1 -> a :: (app l1 m)

type comparison =
| Eq
| Lt
| Gt

(** val compOpp : comparison -> comparison **)

let compOpp = function
| Eq -> Eq
| Lt -> Gt
| Gt -> Lt

(** val add : nat -> nat -> nat **)

let rec add n m =
  match n with
  | O -> m
  | S p -> S (add p m)

type positive =
| XI of positive
| XO of positive
| XH

type z =
| Z0
| Zpos of positive
| Zneg of positive

module Nat =
 struct
  (** val eqb : nat -> nat -> bool **)

  let rec eqb n m =
    match n with
    | O -> (match m with
            | O -> true
            | S _ -> false)
    | S n' -> (match m with
               | O -> false
               | S m' -> eqb n' m')

  (** val leb : nat -> nat -> bool **)

  let rec leb n m =
    match n with
    | O -> true
    | S n' -> (match m with
               | O -> false
               | S m' -> leb n' m')

  (** val ltb : nat -> nat -> bool **)

  let ltb n m =
    leb (S n) m
 end

module Pos =
 struct
  (** val succ : positive -> positive **)

  let rec succ = function
  | XI p -> XO (succ p)
  | XO p -> XI p
  | XH -> XO XH

  (** val add : positive -> positive -> positive **)

  let rec add x y =
    match x with
    | XI p ->
      (match y with
       | XI q -> XO (add_carry p q)
       | XO q -> XI (add p q)
       | XH -> XO (succ p))
    | XO p ->
      (match y with
       | XI q -> XI (add p q)
       | XO q -> XO (add p q)
       | XH -> XI p)
    | XH -> (match y with
             | XI q -> XO (succ q)
             | XO q -> XI q
             | XH -> XO XH)

  (** val add_carry : positive -> positive -> positive **)

  and add_carry x y =
    match x with
    | XI p ->
      (match y with
       | XI q -> XI (add_carry p q)
       | XO q -> XO (add_carry p q)
       | XH -> XI (succ p))
    | XO p ->
      (match y with
       | XI q -> XO (add_carry p q)
       | XO q -> XI (add p q)
       | XH -> XO (succ p))
    | XH ->
      (match y with
       | XI q -> XI (succ q)
       | XO q -> XO (succ q)
       | XH -> XI XH)

  (** val pred_double : positive -> positive **)

  let rec pred_double = function
  | XI p -> XI (XO p)
  | XO p -> XI (pred_double p)
  | XH -> XH

  (** val mul : positive -> positive -> positive **)

  let rec mul x y =
    match x with
    | XI p -> add y (XO (mul p y))
    | XO p -> XO (mul p y)
    | XH -> y

  (** val compare_cont : comparison -> positive -> positive -> comparison **)

  let rec compare_cont r x y =
    match x with
    | XI p ->
      (match y with
       | XI q -> compare_cont r p q
       | XO q -> compare_cont Gt p q
       | XH -> Gt)
    | XO p ->
      (match y with
       | XI q -> compare_cont Lt p q
       | XO q -> compare_cont r p q
       | XH -> Gt)
    | XH -> (match y with
             | XH -> r
             | _ -> Lt)

  (** val compare : positive -> positive -> comparison **)

  let compare =
    compare_cont Eq

  (** val eqb : positive -> positive -> bool **)

  let rec eqb p q =
    match p with
    | XI p0 -> (match q with
                | XI q0 -> eqb p0 q0
                | _ -> false)
    | XO p0 -> (match q with
                | XO q0 -> eqb p0 q0
                | _ -> false)
    | XH -> (match q with
             | XH -> true
             | _ -> false)
 end

module Z =
 struct
  (** val double : z -> z **)

  let double = function
  | Z0 -> Z0
  | Zpos p -> Zpos (XO p)
  | Zneg p -> Zneg (XO p)

  (** val succ_double : z -> z **)

  let succ_double = function
  | Z0 -> Zpos XH
  | Zpos p -> Zpos (XI p)
  | Zneg p -> Zneg (Pos.pred_double p)

  (** val pred_double : z -> z **)

  let pred_double = function
  | Z0 -> Zneg XH
  | Zpos p -> Zpos (Pos.pred_double p)
  | Zneg p -> Zneg (XI p)

  (** val pos_sub : positive -> positive -> z **)

  let rec pos_sub x y =
    match x with
    | XI p ->
      (match y with
       | XI q -> double (pos_sub p q)
       | XO q -> succ_double (pos_sub p q)
       | XH -> Zpos (XO p))
    | XO p ->
      (match y with
       | XI q -> pred_double (pos_sub p q)
       | XO q -> double (pos_sub p q)
       | XH -> Zpos (Pos.pred_double p))
    | XH ->
      (match y with
       | XI q -> Zneg (XO q)
       | XO q -> Zneg (Pos.pred_double q)
       | XH -> Z0)

  (** val add : z -> z -> z **)

  let add x y =
    match x with
    | Z0 -> y
    | Zpos x' ->
      (match y with
       | Z0 -> x
       | Zpos y' -> Zpos (Pos.add x' y')
       | Zneg y' -> pos_sub x' y')
    | Zneg x' ->
      (match y with
       | Z0 -> x
       | Zpos y' -> pos_sub y' x'
       | Zneg y' -> Zneg (Pos.add x' y'))

  (** val opp : z -> z **)

  let opp = function
  | Z0 -> Z0
  | Zpos x0 -> Zneg x0
  | Zneg x0 -> Zpos x0

  (** val sub : z -> z -> z **)

  let sub m n =
    add m (opp n)

  (** val mul : z -> z -> z **)

  let mul x y =
    match x with
    | Z0 -> Z0
    | Zpos x' ->
      (match y with
       | Z0 -> Z0
       | Zpos y' -> Zpos (Pos.mul x' y')
       | Zneg y' -> Zneg (Pos.mul x' y'))
    | Zneg x' ->
      (match y with
       | Z0 -> Z0
       | Zpos y' -> Zneg (Pos.mul x' y')
       | Zneg y' -> Zpos (Pos.mul x' y'))

  (** val compare : z -> z -> comparison **)

  let compare x y =
    match x with
    | Z0 -> (match y with
             | Z0 -> Eq
             | Zpos _ -> Lt
             | Zneg _ -> Gt)
    | Zpos x' -> (match y with
                  | Zpos y' -> Pos.compare x' y'
                  | _ -> Gt)
    | Zneg x' ->
      (match y with
       | Zneg y' -> compOpp (Pos.compare x' y')
       | _ -> Lt)

  (** val leb : z -> z -> bool **)

  let leb x y =
    match compare x y with
    | Gt -> false
    | _ -> true

  (** val ltb : z -> z -> bool **)

  let ltb x y =
    match compare x y with
    | Lt -> true
    | _ -> false

  (** val gtb : z -> z -> bool **)

  let gtb x y =
    match compare x y with
    | Gt -> true
    | _ -> false

  (** val eqb : z -> z -> bool **)

  let eqb x y =
    match x with
    | Z0 -> (match y with
             | Z0 -> true
             | _ -> false)
    | Zpos p -> (match y with
                 | Zpos q -> Pos.eqb p q
                 | _ -> false)
    | Zneg p -> (match y with
                 | Zneg q -> Pos.eqb p q
                 | _ -> false)

  (** val max : z -> z -> z **)

  let max n m =
    match compare n m with
    | Lt -> m
    | _ -> n

  (** val min : z -> z -> z **)

  let min n m =
    match compare n m with
    | Gt -> m
    | _ -> n

  (** val pos_div_eucl : positive -> z -> z * z **)

  let rec pos_div_eucl a b =
    match a with
    | XI a' ->
      let (q, r) = pos_div_eucl a' b in
      let r' = add (mul (Zpos (XO XH)) r) (Zpos XH) in
      if ltb r' b
      then ((mul (Zpos (XO XH)) q), r')
      else ((add (mul (Zpos (XO XH)) q) (Zpos XH)), (sub r' b))
    | XO a' ->
      let (q, r) = pos_div_eucl a' b in
      let r' = mul (Zpos (XO XH)) r in
      if ltb r' b
      then ((mul (Zpos (XO XH)) q), r')
      else ((add (mul (Zpos (XO XH)) q) (Zpos XH)), (sub r' b))
    | XH -> if leb (Zpos (XO XH)) b then (Z0, (Zpos XH)) else ((Zpos XH), Z0)

  (** val div_eucl : z -> z -> z * z **)

  let div_eucl a b =
    match a with
    | Z0 -> (Z0, Z0)
    | Zpos a' ->
      (match b with
       | Z0 -> (Z0, a)
       | Zpos _ -> pos_div_eucl a' b
       | Zneg b' ->
         let (q, r) = pos_div_eucl a' (Zpos b') in
         (match r with
          | Z0 -> ((opp q), Z0)
          | _ -> ((opp (add q (Zpos XH))), (add b r))))
    | Zneg a' ->
      (match b with
       | Z0 -> (Z0, a)
       | Zpos _ ->
         let (q, r) = pos_div_eucl a' b in
         (match r with
          | Z0 -> ((opp q), Z0)
          | _ -> ((opp (add q (Zpos XH))), (sub b r)))
       | Zneg b' -> let (q, r) = pos_div_eucl a' (Zpos b') in (q, (opp r)))

  (** val div : z -> z -> z **)

  let div a b =
    let (q, _) = div_eucl a b in q

  (** val modulo : z -> z -> z **)

  let modulo a b =
    let (_, r) = div_eucl a b in r
 end

(** val nth : nat -> 'a1 list -> 'a1 -> 'a1 **)

let rec nth n l default =
  match n with
  | O -> (match l with
          | [] -> default
          | x :: _ -> x)
  | S m -> (match l with
            | [] -> default
            | _ :: t -> nth m t default)

(** val fold_left : ('a1 -> 'a2 -> 'a1) -> 'a2 list -> 'a1 -> 'a1 **)

let rec fold_left f l a0 =
  match l with
  | [] -> a0
  | b :: t -> fold_left f t (f a0 b)

(** val forallb : ('a1 -> bool) -> 'a1 list -> bool **)

let rec forallb f = function
| [] -> true
| a :: l0 -> (&&) (f a) (forallb f l0)

(** val skipn : nat -> 'a1 list -> 'a1 list **)

let rec skipn n l =
  match n with
  | O -> l
  | S n0 -> (match l with
             | [] -> []
             | _ :: l0 -> skipn n0 l0)

(** val strtol_base : z **)

let strtol_base =
  Zpos (XO (XI (XO XH)))

(** val major_max : z **)

let major_max =
  Zpos (XI (XI (XI (XI (XI (XI (XI XH)))))))

(** val minor_max : z **)

let minor_max =
  Zpos (XI (XI (XI (XI (XI (XI (XI (XI (XI (XI (XI (XI (XI (XI (XI
    XH)))))))))))))))

type res =
| Ver of z * z
| Invalid
| OutOfBounds

(** val is_digit : z -> bool **)

let is_digit c =
  (&&) (Z.leb (Zpos (XO (XO (XO (XO (XI XH)))))) c)
    (Z.leb c (Zpos (XI (XO (XO (XI (XI XH)))))))

(** val is_space : z -> bool **)

let is_space c =
  (||)
    ((&&) (Z.leb (Zpos (XI (XO (XO XH)))) c)
      (Z.leb c (Zpos (XI (XO (XI XH))))))
    (Z.eqb c (Zpos (XO (XO (XO (XO (XO XH)))))))

(** val lONG_MAX : z **)

let lONG_MAX =
  Zpos (XI (XI (XI (XI (XI (XI (XI (XI (XI (XI (XI (XI (XI (XI (XI (XI (XI
    (XI (XI (XI (XI (XI (XI (XI (XI (XI (XI (XI (XI (XI (XI (XI (XI (XI (XI
    (XI (XI (XI (XI (XI (XI (XI (XI (XI (XI (XI (XI (XI (XI (XI (XI (XI (XI
    (XI (XI (XI (XI (XI (XI (XI (XI (XI
    XH))))))))))))))))))))))))))))))))))))))))))))))))))))))))))))))

(** val lONG_MIN : z **)

let lONG_MIN =
  Zneg (XO (XO (XO (XO (XO (XO (XO (XO (XO (XO (XO (XO (XO (XO (XO (XO (XO
    (XO (XO (XO (XO (XO (XO (XO (XO (XO (XO (XO (XO (XO (XO (XO (XO (XO (XO
    (XO (XO (XO (XO (XO (XO (XO (XO (XO (XO (XO (XO (XO (XO (XO (XO (XO (XO
    (XO (XO (XO (XO (XO (XO (XO (XO (XO (XO
    XH)))))))))))))))))))))))))))))))))))))))))))))))))))))))))))))))

(** val digits_pref : z list -> z -> nat -> z * nat **)

let rec digits_pref l acc n =
  match l with
  | [] -> (acc, n)
  | c :: t ->
    if is_digit c
    then digits_pref t
           (Z.add (Z.mul strtol_base acc)
             (Z.sub c (Zpos (XO (XO (XO (XO (XI XH)))))))) (S n)
    else (acc, n)

(** val skip_spaces : z list -> nat -> z list * nat **)

let rec skip_spaces l n =
  match l with
  | [] -> (l, n)
  | c :: t -> if is_space c then skip_spaces t (S n) else (l, n)

(** val strtol10 : z list -> z * nat **)

let strtol10 l =
  let (l1, nsp) = skip_spaces l O in
  (match l1 with
   | [] ->
     let p = (false, l1) in
     let nsg = O in
     let (neg, l2) = p in
     let (v, nd) = digits_pref l2 Z0 O in
     (match nd with
      | O -> (Z0, O)
      | S _ ->
        let v' = if neg then Z.max (Z.opp v) lONG_MIN else Z.min v lONG_MAX in
        (v', (add (add nsp nsg) nd)))
   | c :: t ->
     if Z.eqb c (Zpos (XI (XO (XI (XI (XO XH))))))
     then let p = (true, t) in
          let nsg = S O in
          let (neg, l2) = p in
          let (v, nd) = digits_pref l2 Z0 O in
          (match nd with
           | O -> (Z0, O)
           | S _ ->
             let v' =
               if neg then Z.max (Z.opp v) lONG_MIN else Z.min v lONG_MAX
             in
             (v', (add (add nsp nsg) nd)))
     else if Z.eqb c (Zpos (XI (XI (XO (XI (XO XH))))))
          then let p = (false, t) in
               let nsg = S O in
               let (neg, l2) = p in
               let (v, nd) = digits_pref l2 Z0 O in
               (match nd with
                | O -> (Z0, O)
                | S _ ->
                  let v' =
                    if neg then Z.max (Z.opp v) lONG_MIN else Z.min v lONG_MAX
                  in
                  (v', (add (add nsp nsg) nd)))
          else let p = (false, l1) in
               let nsg = O in
               let (neg, l2) = p in
               let (v, nd) = digits_pref l2 Z0 O in
               (match nd with
                | O -> (Z0, O)
                | S _ ->
                  let v' =
                    if neg then Z.max (Z.opp v) lONG_MIN else Z.min v lONG_MAX
                  in
                  (v', (add (add nsp nsg) nd))))

(** val rd : z list -> nat -> z option **)

let rd s i =
  if Nat.ltb i (length s)
  then Some (nth i s Z0)
  else if Nat.eqb i (length s) then Some Z0 else None

(** val strtol_at : z list -> nat -> (z * nat) option **)

let strtol_at s i =
  if Nat.leb i (length s)
  then let (v, n) = strtol10 (skipn i s) in Some (v, (add i n))
  else None

(** val from_string : z list -> res **)

let from_string s =
  match rd s O with
  | Some c0 ->
    if negb (is_digit c0)
    then Invalid
    else (match strtol_at s O with
          | Some p ->
            let (tmp, e) = p in
            (match rd s e with
             | Some ce ->
               if (||)
                    ((||) ((||) (Nat.eqb e O) (Z.gtb tmp major_max))
                      (Z.ltb tmp Z0))
                    (negb (Z.eqb ce (Zpos (XO (XI (XI (XI (XO XH))))))))
               then Invalid
               else let m = S e in
                    (match rd s m with
                     | Some cm ->
                       if negb (is_digit cm)
                       then Invalid
                       else (match strtol_at s m with
                             | Some p0 ->
                               let (tmp2, e2) = p0 in
                               (match rd s e2 with
                                | Some ce2 ->
                                  if (||)
                                       ((||)
                                         ((||) (Nat.eqb e2 m)
                                           (Z.gtb tmp2 minor_max))
                                         (Z.ltb tmp2 Z0))
                                       (negb (Z.eqb ce2 Z0))
                                  then Invalid
                                  else Ver (tmp, tmp2)
                                | None -> OutOfBounds)
                             | None -> OutOfBounds)
                     | None -> OutOfBounds)
             | None -> OutOfBounds)
          | None -> OutOfBounds)
  | None -> OutOfBounds

(** val from_string_legacy : z list -> res **)

let from_string_legacy s =
  match strtol_at s O with
  | Some p ->
    let (tmp, e) = p in
    if (||) ((||) (Nat.eqb e O) (Z.gtb tmp major_max)) (Z.ltb tmp Z0)
    then Invalid
    else let m = S e in
         (match strtol_at s m with
          | Some p0 ->
            let (tmp2, e2) = p0 in
            if (||) ((||) (Nat.eqb e2 m) (Z.gtb tmp2 minor_max))
                 (Z.ltb tmp2 Z0)
            then Invalid
            else Ver (tmp, tmp2)
          | None -> OutOfBounds)
  | None -> OutOfBounds

(** val digits : nat -> z -> z list **)

let rec digits fuel n =
  match fuel with
  | O ->
    (Z.add (Zpos (XO (XO (XO (XO (XI XH))))))
      (Z.modulo n (Zpos (XO (XI (XO XH)))))) :: []
  | S f ->
    if Z.ltb n (Zpos (XO (XI (XO XH))))
    then (Z.add (Zpos (XO (XO (XO (XO (XI XH)))))) n) :: []
    else app (digits f (Z.div n (Zpos (XO (XI (XO XH))))))
           ((Z.add (Zpos (XO (XO (XO (XO (XI XH))))))
              (Z.modulo n (Zpos (XO (XI (XO XH)))))) :: [])

(** val is_valid : z -> z -> bool **)

let is_valid maj min0 =
  negb ((&&) (Z.eqb maj major_max) (Z.eqb min0 minor_max))

(** val to_string : z -> z -> z list **)

let to_string maj min0 =
  if is_valid maj min0
  then app (digits (S (S (S (S (S O))))) maj)
         (app ((Zpos (XO (XI (XI (XI (XO XH)))))) :: [])
           (digits (S (S (S (S (S O))))) min0))
  else (Zpos (XO (XO (XI (XI (XI XH)))))) :: ((Zpos (XI (XO (XO (XI (XO (XI
         XH))))))) :: ((Zpos (XO (XI (XI (XI (XO (XI XH))))))) :: ((Zpos (XO
         (XI (XI (XO (XI (XI XH))))))) :: ((Zpos (XI (XO (XO (XO (XO (XI
         XH))))))) :: ((Zpos (XO (XO (XI (XI (XO (XI XH))))))) :: ((Zpos (XI
         (XO (XO (XI (XO (XI XH))))))) :: ((Zpos (XO (XO (XI (XO (XO (XI
         XH))))))) :: ((Zpos (XO (XI (XI (XI (XI XH)))))) :: []))))))))

(** val v_eq : (z * z) -> (z * z) -> bool **)

let v_eq a b =
  (&&) (Z.eqb (fst a) (fst b)) (Z.eqb (snd a) (snd b))

(** val v_ne : (z * z) -> (z * z) -> bool **)

let v_ne a b =
  negb (v_eq a b)

(** val v_lt : (z * z) -> (z * z) -> bool **)

let v_lt a b =
  (||) (Z.ltb (fst a) (fst b))
    ((&&) (Z.eqb (fst a) (fst b)) (Z.ltb (snd a) (snd b)))

(** val v_gt : (z * z) -> (z * z) -> bool **)

let v_gt a b =
  v_lt b a

(** val v_le : (z * z) -> (z * z) -> bool **)

let v_le a b =
  negb (v_gt a b)

(** val v_ge : (z * z) -> (z * z) -> bool **)

let v_ge a b =
  negb (v_lt a b)

(** val split_dot : z list -> (z list * z list) option **)

let rec split_dot = function
| [] -> None
| c :: t ->
  if Z.eqb c (Zpos (XO (XI (XI (XI (XO XH))))))
  then Some ([], t)
  else (match split_dot t with
        | Some p -> let (a, b) = p in Some ((c :: a), b)
        | None -> None)

(** val dec_value : z list -> z **)

let dec_value l =
  fold_left (fun a c ->
    Z.add (Z.mul (Zpos (XO (XI (XO XH)))) a)
      (Z.sub c (Zpos (XO (XO (XO (XO (XI XH)))))))) l Z0

(** val numeral : z list -> bool **)

let numeral l =
  (&&) (negb (Nat.eqb (length l) O)) (forallb is_digit l)

(** val spec_from_string : z list -> res **)

let spec_from_string s =
  match split_dot s with
  | Some p ->
    let (a, b) = p in
    if (&&)
         ((&&) ((&&) (numeral a) (numeral b))
           (Z.leb (dec_value a) (Zpos (XI (XI (XI (XI (XI (XI (XI XH))))))))))
         (Z.leb (dec_value b) (Zpos (XI (XI (XI (XI (XI (XI (XI (XI (XI (XI
           (XI (XI (XI (XI (XI XH)))))))))))))))))
    then Ver ((dec_value a), (dec_value b))
    else Invalid
  | None -> Invalid
